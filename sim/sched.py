"""Baton-passing scheduler: real threads, exactly one runnable, every
interleaving decided by the PRNG (or by a recorded decision list).

Pre-emption points are the sites at which CPython 3.12 itself may switch
threads, observed with PEP 669 ``sys.monitoring`` local events on
fastparquet's own code objects only: function entry / resume, backward jumps,
and return from a C call (where the GIL may have been released).  SimFS calls
made by a worker are additional points (real I/O releases the GIL).  Every
schedule run is therefore one the real interpreter can produce.

A schedule is recorded as its switches only:
    first                           thread that runs first
    switches  [[tid, n, next]]      at the n-th point of thread tid -> next
    exits     [next, ...]           who runs after each thread exit
Addressing a switch by the per-thread ordinal keeps the remaining switches
attached to the same place when one is removed (schedule shrinking).
"""
import hashlib
import random
import sys
import threading
import traceback
import types

mon = sys.monitoring
E = mon.events
TOOL = 3
STEP_CAP = 150000


def code_objects(modules):
    seen, out = set(), []

    def walk(co):
        if co in seen:
            return
        seen.add(co)
        out.append(co)
        for c in co.co_consts:
            if isinstance(c, types.CodeType):
                walk(c)
    for mod in modules:
        for v in list(vars(mod).values()):
            if isinstance(v, types.FunctionType) and \
                    v.__module__ == mod.__name__:
                walk(v.__code__)
            elif isinstance(v, type) and v.__module__ == mod.__name__:
                for m in list(vars(v).values()):
                    f = getattr(m, '__func__', m)
                    if isinstance(f, property):
                        for g in (f.fget, f.fset, f.fdel):
                            if g is not None and hasattr(g, '__code__'):
                                walk(g.__code__)
                    elif isinstance(f, types.FunctionType):
                        walk(f.__code__)
    return out


def fastparquet_codes():
    from fastparquet import (api, compression, converted_types, core,
                             dataframe, encoding, schema, util, writer)
    from fastparquet import json as fpjson
    return code_objects([api, core, schema, util, writer, dataframe,
                         converted_types, encoding, compression, fpjson])


class Scheduler:
    """strategy: ('random', p) | ('pct', d, horizon) | ('rr', q) |
    ('fair', p0, grace) | ('coarse',) | ('replay', schedule dict)"""

    def __init__(self, strategy, seed=0, nthreads=0, dense=False):
        # dense: every source line of the package is a pre-emption point too
        # (a superset of what a GIL build can do between two lines that hold
        # no call or backward jump; exact for free-threaded builds)
        self.dense = dense
        self._last_line = {}
        self.strategy = strategy
        self.kind = strategy[0]
        self.rng = random.Random(seed)
        self.sems = {}
        self.alive = []
        self.tids = {}
        self.cnt = {}
        self.npoints = 0
        self.aborted = False
        self.switches = []          # [tid, ordinal, next]
        self.switch_sites = []      # (from fn+off, to fn+off)
        self.exit_log = []
        self.first = None
        self.results = {}
        self.done = threading.Semaphore(0)
        self.h = hashlib.blake2b(digest_size=8)
        self.where = {}             # tid -> (function name, offset) suspended
        self.started = set()
        self.true_switches = 0
        self.overlap = set()
        if self.kind == 'replay':
            sc = strategy[1]
            self.rep = {(t, n): nxt for t, n, nxt in sc['switches']}
            self.rep_exits = list(sc.get('exits', []))
            self.rep_first = sc.get('first', 0)
        elif self.kind == 'pct':
            d, horizon = strategy[1], max(2, strategy[2])
            self.prio = list(range(nthreads))
            self.rng.shuffle(self.prio)
            self.change = set(self.rng.sample(range(1, horizon + 1),
                                              min(d, horizon)))
        elif self.kind == 'rr':
            self.quantum = strategy[1]
            self.since = 0
        elif self.kind == 'fair':
            # location-fair: the chance of a switch at a code location falls
            # with the number of times the run has been there, so that code
            # executed once (lazy initialisation, memo look-ups) is pre-empted
            # as readily as the body of a decoding loop; after a switch the
            # new thread runs `grace` points undisturbed
            self.p0, self.grace_max = strategy[1], strategy[2]
            self.hits = {}
            self.grace = 0

    # ---------------------------------------------------------------- points
    def point(self, name, off):
        tid = self.tids.get(threading.get_ident())
        if tid is None or self.aborted:
            return
        self.npoints += 1
        if self.npoints > (4 * STEP_CAP if self.dense else STEP_CAP):
            self.aborted = True
            return
        n = self.cnt[tid] = self.cnt.get(tid, 0) + 1
        self.h.update(b'%d:%s:%d;' % (tid, name.encode(), off))
        kind = self.kind
        if kind == 'random':
            if self.rng.random() < self.strategy[1]:
                nxt = self.rng.choice(self.alive)
            else:
                return
        elif kind == 'replay':
            nxt = self.rep.get((tid, n), tid)
            if nxt not in self.alive:
                return
        elif kind == 'pct':
            if self.npoints in self.change:
                self.prio[tid] = min(self.prio) - 1
            nxt = max(self.alive, key=lambda t: self.prio[t])
        elif kind == 'fair':
            key = (name, off)
            c = self.hits[key] = self.hits.get(key, 0) + 1
            if self.grace > 0:
                self.grace -= 1
                return
            if self.rng.random() < max(0.0005, self.p0 / c):
                nxt = self.rng.choice(self.alive)
                if nxt != tid and self.grace_max:
                    self.grace = self.rng.randrange(self.grace_max + 1)
            else:
                return
        elif kind == 'rr':
            self.since += 1
            if self.since < self.quantum:
                return
            self.since = 0
            i = self.alive.index(tid)
            nxt = self.alive[(i + 1) % len(self.alive)]
        else:                       # coarse: never inside an operation
            return
        if nxt == tid:
            return
        self.switches.append([tid, n, nxt])
        self.where[tid] = (name, off)
        if nxt in self.started:
            self.true_switches += 1
            w = self.where.get(nxt)
            if w:
                self.overlap.add('%s | %s' % (name, w[0]))
        self.h.update(b'->%d;' % nxt)
        self.sems[nxt].release()
        self.sems[tid].acquire()

    def io_point(self, op, path):
        """SimFS calls made on behalf of a worker are pre-emption points."""
        self.point('simfs.' + op, 0)

    def _cb_start(self, code, off):
        if self.dense:
            self._last_line.pop(threading.get_ident(), None)
        self.point(code.co_qualname, off)

    def _cb_jump(self, code, off, dst):
        if dst < off:
            if self.dense:
                self._last_line.pop(threading.get_ident(), None)
            self.point(code.co_qualname, off)

    def _cb_cret(self, code, off, callable_, arg0):
        if self.dense:
            self._last_line.pop(threading.get_ident(), None)
        self.point(code.co_qualname, off)

    def _cb_line(self, code, line):
        # the interpreter may report one line twice in a row depending on how
        # far its adaptive specialisation of that code has got (measured: a
        # conditional expression reports its line once cold and twice warm);
        # nothing monitored lies between the two, so they are one point
        tid = threading.get_ident()
        key = (code, line)
        if self._last_line.get(tid) == key:
            return
        self._last_line[tid] = key
        self.point(code.co_qualname, -line)

    def install(self, codes):
        mon.use_tool_id(TOOL, 'verif-dst')
        for ev, cb in ((E.PY_START, self._cb_start),
                       (E.PY_RESUME, self._cb_start),
                       (E.JUMP, self._cb_jump),
                       (E.C_RETURN, self._cb_cret),
                       (E.C_RAISE, self._cb_cret)):
            mon.register_callback(TOOL, ev, cb)
        evs = E.PY_START | E.PY_RESUME | E.JUMP | E.CALL
        if self.dense:
            mon.register_callback(TOOL, E.LINE, self._cb_line)
            evs |= E.LINE
        for co in codes:
            mon.set_local_events(TOOL, co, evs)

    def uninstall(self, codes):
        for co in codes:
            mon.set_local_events(TOOL, co, 0)
        for ev in (E.PY_START, E.PY_RESUME, E.JUMP, E.C_RETURN, E.C_RAISE,
                   E.LINE):
            mon.register_callback(TOOL, ev, None)
        mon.free_tool_id(TOOL)

    # ------------------------------------------------------------------- run
    def _next_at_exit(self):
        if self.kind == 'replay':
            nxt = self.rep_exits.pop(0) if self.rep_exits else min(self.alive)
            if nxt not in self.alive:
                nxt = min(self.alive)
        elif self.kind == 'pct':
            nxt = max(self.alive, key=lambda t: self.prio[t])
        elif self.kind == 'rr':
            nxt = self.alive[0]
        else:
            nxt = self.rng.choice(self.alive)
        return nxt

    def run(self, fns):
        n = len(fns)
        threads = []
        for i in range(n):
            self.sems[i] = threading.Semaphore(0)
            self.alive.append(i)

        def body(i, fn):
            self.tids[threading.get_ident()] = i
            self.sems[i].acquire()
            self.started.add(i)
            try:
                self.results[i] = ('ok', fn())
            except BaseException as e:
                self.results[i] = ('exc', type(e).__name__, str(e)[:300],
                                   _where(e))
            finally:
                self.alive.remove(i)
                del self.tids[threading.get_ident()]
                if self.alive:
                    nxt = self._next_at_exit()
                    self.exit_log.append(nxt)
                    self.h.update(b'x%d->%d;' % (i, nxt))
                    self.sems[nxt].release()
                else:
                    self.done.release()
        for i, fn in enumerate(fns):
            t = threading.Thread(target=body, args=(i, fn), daemon=True)
            t.start()
            threads.append(t)
        if self.kind == 'replay':
            first = self.rep_first if self.rep_first in self.alive else 0
        elif self.kind == 'pct':
            first = max(self.alive, key=lambda t: self.prio[t])
        elif self.kind == 'rr':
            first = 0
        else:
            first = self.rng.choice(self.alive)
        self.first = first
        self.sems[first].release()
        self.done.acquire()
        for t in threads:
            t.join()
        return self.results

    def schedule(self):
        return {'first': self.first, 'switches': [list(s) for s in
                                                  self.switches],
                'exits': list(self.exit_log)}

    def digest(self):
        return self.h.hexdigest()


def _where(e):
    tb = traceback.extract_tb(e.__traceback__)
    for fr in reversed(tb):
        if '/fastparquet/' in fr.filename:
            return '%s:%s' % (fr.filename.rsplit('/', 1)[1], fr.name)
    return tb[-1].name if tb else '?'


class Counter:
    """Counts pre-emption points of a sequential execution (used to size the
    PCT horizon)."""

    def __init__(self):
        self.n = 0

    def run(self, codes, fn):
        s = Scheduler(('coarse',))
        s.install(codes)
        try:
            s.run([fn])
        finally:
            s.uninstall(codes)
        self.n = s.npoints
        return s.results[0]
