"""Self-tests of the simulator itself (not of fastparquet):

  smoke  - shadow package is what gets imported; SimFS agrees with
           LocalFileSystem byte for byte on a write/append/remove/rename script.
  full   - determinism: N run indices per check executed twice in fresh
           interpreters (same hash seed), plus once under another hash seed
           and once inside a longer block (run-order independence).
"""
import json
import os
import subprocess
import sys
import tempfile
import threading

from . import build, prng

SMOKE = r'''
import sys, os, json, tempfile, shutil, warnings
warnings.simplefilter('ignore')
import fastparquet
assert os.path.realpath(os.path.dirname(fastparquet.__file__)).startswith(
    os.path.realpath(sys.argv[1])), fastparquet.__file__
import fastparquet.cencoding as ce
assert ce.__file__.startswith(sys.argv[1]), ce.__file__
import pandas as pd, numpy as np, fsspec
from fastparquet import write, ParquetFile
from sim.simfs import SimFS
from sim import frames as F
spec = {'batch': 1, 'nrows': 30,
        'cols': [['uid', 'uid', 'none', 0, None], ['a', 'f64', 'some', 3, None],
                 ['s', 'str', 'some', 4, None], ['c', 'cat', 'some', 5, ['x', 'y']]],
        'part': {'p': ['pstr', ['a', 'b', 'c'], 9]}}
df = F.build_frame(spec)
tmp = tempfile.mkdtemp(prefix='verif-selftest-')
try:
    lfs = fsspec.filesystem('file')
    sfs = SimFS(); sfs.dirs.add(tmp); 
    for d in tmp.split('/'):
        pass
    parts = tmp.split('/')
    for i in range(1, len(parts) + 1):
        sfs.dirs.add('/'.join(parts[:i]))
    def script(fs, mk):
        root = tmp + '/ds'
        write(root, df, file_scheme='hive', partition_on=['p'], open_with=fs.open, mkdirs=mk, row_group_offsets=10, write_index=False)
        write(root, df, file_scheme='hive', partition_on=['p'], open_with=fs.open, mkdirs=mk, append=True, write_index=False)
        pf = ParquetFile(root, fs=fs)
        pf.remove_row_groups(pf.row_groups[1:3], open_with=fs.open, sort_pnames=False)
        one = tmp + '/one.parq'
        write(one, df, open_with=fs.open, write_index=False)
        write(one, df.iloc[:7], open_with=fs.open, append=True, write_index=False)
        fastparquet.writer.open = getattr(fs, 'builtin_open', open)
        try:
            fastparquet.update_file_custom_metadata(one, {'k': 'v' * 50})
        finally:
            del fastparquet.writer.open
        fs.rename(one, tmp + '/two.parq')
        return ParquetFile(root, fs=fs).to_pandas(), ParquetFile(tmp + '/two.parq', fs=fs).to_pandas()
    a = script(lfs, lambda p: lfs.mkdirs(p, exist_ok=True))
    shutil.move(tmp + '/ds', tmp + '/ds_local'); shutil.move(tmp + '/two.parq', tmp + '/two_local.parq')
    b = script(sfs, sfs.mkdirs)
    local = {}
    for dp, dn, fn in os.walk(tmp):
        for f in fn:
            p = os.path.join(dp, f)
            local[p.replace('ds_local', 'ds').replace('two_local', 'two')] = open(p, 'rb').read()
    sim = {p: bytes(v) for p, v in sfs.files.items()}
    assert sorted(local) == sorted(sim), (sorted(local), sorted(sim))
    for p in local:
        assert local[p] == sim[p], 'bytes differ: ' + p
    for x, y in zip(a, b):
        assert F.canon_frame(x) == F.canon_frame(y)
    print('selftest smoke ok: %d files byte-identical between LocalFileSystem and SimFS' % len(local))
finally:
    shutil.rmtree(tmp, ignore_errors=True)
'''


def smoke(shadow_dir=None):
    shadow_dir = shadow_dir or build.shadow()
    env = build.env_for(shadow_dir, 0)
    p = subprocess.run([build.PY, '-c', SMOKE, shadow_dir], env=env,
                       cwd=build.ROOT, capture_output=True, text=True,
                       timeout=300)
    sys.stdout.write(p.stdout)
    if p.returncode != 0:
        sys.stdout.write(p.stderr[-3000:])
        print('selftest smoke FAILED')
        return 2
    return 0


def full(n=16, checks=None):
    from . import runner
    shadow_dir = build.shadow()
    rc = smoke(shadow_dir)
    checks = checks or sorted(
        f[:-3].upper() for f in os.listdir(os.path.join(build.ROOT, 'checks'))
        if f.startswith('c') and f.endswith('.py'))
    seed = int(os.environ.get('VERIF_SEED') or prng.DEFAULT_SEED)
    for prop in checks:
        jobs = []
        for i in range(n):
            hs = prng.derive(seed, prop, 'selftest', i) % 2 ** 32
            jobs.append((i, 'a', hs, [i]))
            jobs.append((i, 'b', hs, [i]))
            jobs.append((i, 'other-hash', hs ^ 0x5555, [i]))
            jobs.append((i, 'after-others', hs, list(range(max(0, i - 3), i + 1))))
        out = {}
        lock = threading.Lock()
        it = iter(jobs)

        def pump():
            while True:
                with lock:
                    try:
                        i, tag, hs, idxs = next(it)
                    except StopIteration:
                        return
                res, err = runner.call_worker(
                    {'check': prop, 'seed': seed, 'tier': 'quick',
                     'indices': idxs, 'run_timeout': 600, 'isolate': True},
                    shadow_dir, hs,
                    1800)
                dg = None
                for r in res:
                    if r.get('idx') == i:
                        dg = r.get('digest'), r.get('verdict')
                with lock:
                    out[(i, tag)] = dg if not err else ('ERR', err[-300:])
        ths = [threading.Thread(target=pump) for _ in range(runner.NPROC)]
        for t in ths:
            t.start()
        for t in ths:
            t.join()
        mism = [i for i in range(n) if out[(i, 'a')] != out[(i, 'b')]]
        order = [i for i in range(n) if out[(i, 'a')] != out[(i, 'after-others')]]
        hashd = [i for i in range(n) if out[(i, 'a')] != out[(i, 'other-hash')]]
        errs = [k for k, v in out.items() if v is None or v[0] == 'ERR']
        print('%s determinism: %d indices; same-seed mismatches=%r '
              'run-order dependence=%r differs-under-other-hashseed=%r '
              'errors=%r' % (prop, n, mism, order, hashd, errs[:3]))
        if mism or order or errs:
            rc = 2
    return rc
