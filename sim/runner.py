"""Parent side: keeps N worker interpreters busy, aggregates results, writes
replay files and evidence, applies the known-findings file, prints the
VIOLATION / KNOWN-FINDING lines and chooses the exit code.

Exit codes:  0 held on everything explored (KNOWN-FINDING lines allowed)
             1 violation not listed in known_findings.json (VIOLATION line)
             2 harness error (worker died, timed out, harness exception)
"""
import hashlib
import importlib
import json
import os
import subprocess
import sys
import tempfile
import threading
import time

from . import build, prng

ROOT = build.ROOT
OUT = os.environ.get('VERIF_OUT') or ROOT
PY = build.PY
WORKER = os.path.join(ROOT, 'sim', 'worker.py')
NPROC = int(os.environ.get('VERIF_JOBS', '0')) or min(16, os.cpu_count() or 4)


def call_worker(job, shadow_dir, hashseed, timeout):
    """Run one job in a fresh interpreter; returns (results, error|None)."""
    env = build.env_for(shadow_dir, hashseed)
    p = subprocess.Popen([PY, WORKER], stdin=subprocess.PIPE,
                         stdout=subprocess.PIPE, stderr=subprocess.PIPE,
                         env=env, cwd=ROOT)
    try:
        out, err = p.communicate(json.dumps(job).encode(), timeout=timeout)
    except subprocess.TimeoutExpired:
        p.kill()
        out, err = p.communicate()
        return _parse(out), 'timeout after %ss: %s' % (
            timeout, err.decode(errors='replace')[-1500:])
    res = _parse(out)
    if p.returncode != 0 or not res or not res[-1].get('done'):
        return res, 'worker exit %s: %s' % (
            p.returncode, err.decode(errors='replace')[-1500:])
    return res[:-1], None


def _parse(out):
    res = []
    for line in out.decode(errors='replace').splitlines():
        if line.startswith('@@'):
            try:
                res.append(json.loads(line[2:]))
            except ValueError:
                pass
    return res


def load_known():
    p = os.path.join(ROOT, 'known_findings.json')
    if not os.path.exists(p):
        return []
    with open(p) as f:
        return json.load(f).get('findings', [])


def match_known(known, prop, class_key):
    for k in known:
        if k['property'] == prop and k.get('status') == 'open' and \
                (k.get('class_key') == class_key
                 or class_key in k.get('class_keys', ())):
            return k
    return None


def write_replay(prop, case, class_key, message, extra=None):
    body = {'property': prop, 'class_key': class_key, 'message': message,
            'case': case}
    if extra:
        body.update(extra)
    blob = json.dumps(body, sort_keys=True, default=str)
    dg = hashlib.blake2b(blob.encode(), digest_size=6).hexdigest()
    d = os.path.join(OUT, 'replays')
    os.makedirs(d, exist_ok=True)
    path = os.path.join(d, '%s-%s.json' % (prop, dg))
    with open(path, 'w') as f:
        json.dump(body, f, indent=1, sort_keys=True, default=str)
    return path


def run_check(prop, tier, seed, out=sys.stdout):
    t0 = time.time()
    mod = importlib.import_module('checks.' + prop.lower())
    shadow_dir = build.shadow()
    cfg = mod.TIERS[tier]
    nruns, block = cfg['runs'], cfg['block']
    run_timeout = cfg.get('run_timeout', 300)
    wall_cap = cfg.get('wall_cap', 3600)
    blocks = [list(range(s, min(s + block, nruns)))
              for s in range(0, nruns, block)]
    results, errors = [], []
    lock = threading.Lock()
    it = iter(enumerate(blocks))
    budget_cut = [False]

    def pump():
        while True:
            with lock:
                if time.time() - t0 > wall_cap:
                    budget_cut[0] = True
                    return
                try:
                    bi, idxs = next(it)
                except StopIteration:
                    return
            hs = prng.derive(seed, prop, 'block', bi) % (2 ** 32)
            job = {'check': prop, 'seed': seed, 'tier': tier,
                   'indices': idxs, 'run_timeout': run_timeout,
                   'want_case': bi == 0}
            res, err = call_worker(job, shadow_dir, hs,
                                   run_timeout * max(1, len(idxs)) + 60)
            # a worker killed by a signal (the C decoder crashed on damaged
            # bytes) or by its hang guard (the decoder spinning on them):
            # re-run the run it died in with isolated reads - a reader that
            # crashes or does not finish is then reported by the check's own
            # oracle as an unreadable dataset -, then the rest of the block
            guard = 0
            while err and ('worker exit' in err or 'timeout after' in err) \
                    and guard < 8:
                guard += 1
                done = {r.get('idx') for r in res}
                rest = [i for i in idxs if i not in done]
                if not rest:
                    break
                r1, e1 = call_worker(dict(job, indices=rest[:1], isolate=True),
                                     shadow_dir, hs, run_timeout + 60)
                res.extend(r1)
                if e1:
                    err = 'block %d idx %d (isolated): %s' % (bi, rest[0], e1)
                    break
                err = None
                if rest[1:]:
                    r2, err = call_worker(dict(job, indices=rest[1:]),
                                          shadow_dir, hs,
                                          run_timeout * len(rest) + 60)
                    res.extend(r2)
            with lock:
                results.extend(res)
                if err:
                    errors.append('block %d: %s' % (bi, err))

    threads = [threading.Thread(target=pump) for _ in range(NPROC)]
    for t in threads:
        t.start()
    for t in threads:
        t.join()
    results.sort(key=lambda r: r.get('idx', -1))

    # ---------------------------------------------------------- determinism
    det = determinism_sample(prop, tier, seed, shadow_dir, results,
                             int(os.environ.get('VERIF_DET_SAMPLE') or
                                 cfg.get('det_sample', 4)), run_timeout)
    if det['mismatches']:
        errors.append('determinism self-test: %r' % det['mismatch_idx'])

    # -------------------------------------------------------------- verdicts
    known = load_known()
    violations, known_hits, harness = [], {}, []
    for r in results:
        if r['verdict'] == 'harness-error':
            harness.append(r)
        elif r['verdict'] == 'violation':
            for v in r['violations']:
                k = match_known(known, prop, v['class_key'])
                if k is not None:
                    known_hits.setdefault(k['id'], [k, 0])[1] += 1
                else:
                    violations.append((r, v))
    exit_code = 0
    lines = []
    for kid, (k, n) in sorted(known_hits.items()):
        lines.append('KNOWN-FINDING: property=%s %s [%s, %d runs]'
                     % (prop, k['what_fails'], k.get('class_key') or
                        '%d listed cells' % len(k.get('class_keys', ())), n))
    reported = {}
    for r, v in violations:
        if v['class_key'] in reported:
            continue
        case = v.get('case') or r.get('case')
        if len(reported) < 4 and not os.environ.get('VERIF_NO_SHRINK'):
            path, note = minimise_and_verify(prop, case, v, shadow_dir)
        else:
            # many distinct classes: report the rest as found
            path, note = write_replay(prop, case, v['class_key'],
                                      v['message']), '(not minimised)'
        reported[v['class_key']] = path
        lines.append('VIOLATION property=%s replay=%s' % (prop, path))
        lines.append('  class=%s  %s  %s' % (v['class_key'],
                                              v['message'][:300], note))
        exit_code = 1
    for h in harness[:5]:
        lines.append('HARNESS-ERROR idx=%s %s' % (h.get('idx'),
                                                  h.get('error', '')[-800:]))
    for e in errors[:5]:
        lines.append('HARNESS-ERROR ' + e)
    if (harness or errors) and exit_code == 0:
        exit_code = 2

    wall = time.time() - t0
    ev = evidence(mod, prop, tier, seed, results, wall, det, budget_cut[0],
                  len(violations), known_hits, len(harness) + len(errors),
                  nruns)
    os.makedirs(os.path.join(OUT, 'evidence'), exist_ok=True)
    with open(os.path.join(OUT, 'evidence', prop + '.json'), 'w') as f:
        json.dump(ev, f, indent=1, sort_keys=True, default=str)
    for ln in lines:
        print(ln, file=out)
    print('%s %s: runs=%d evals=%d distinct=%d violations=%d known=%d '
          'harness_errors=%d wall=%.1fs exit=%d'
          % (prop, tier, len(results), ev['coverage']['evaluations'],
             ev['coverage']['distinct_nontrivial'], len(violations),
             sum(n for _, n in known_hits.values()),
             len(harness) + len(errors), wall, exit_code), file=out)
    return exit_code


def determinism_sample(prop, tier, seed, shadow_dir, results, n, run_timeout):
    """Re-run a few indices in a fresh interpreter (same derived hash seed and
    a different one) and compare the per-run digests."""
    by_idx = {r['idx']: r for r in results if 'idx' in r and 'digest' in r}
    if not by_idx or not n:
        return {'pairs': 0, 'mismatches': 0, 'mismatch_idx': []}
    idxs = sorted(by_idx)
    step = max(1, len(idxs) // n)
    pick = idxs[::step][:n]
    mod = importlib.import_module('checks.' + prop.lower())
    block = mod.TIERS[tier]['block']
    pairs, bad = 0, []
    jobs = []
    for i in pick:
        hs = prng.derive(seed, prop, 'block', i // block) % (2 ** 32)
        jobs.append((i, hs, 'same'))
        jobs.append((i, (hs + 12345) % (2 ** 32), 'other'))

    def one(job):
        i, hs, tag = job
        res, err = call_worker({'check': prop, 'seed': seed, 'tier': tier,
                                'indices': [i], 'run_timeout': run_timeout,
                                'isolate': True},
                               shadow_dir, hs, run_timeout + 60)
        return i, tag, (res[0].get('digest') if res and not err else
                        'ERR:%s' % err)
    out = []
    ths = []
    for job in jobs:
        t = threading.Thread(target=lambda j=job: out.append(one(j)))
        t.start()
        ths.append(t)
    for t in ths:
        t.join()
    hash_dependent = []
    for i, tag, dg in out:
        if tag == 'same':
            pairs += 1
            if dg != by_idx[i]['digest']:
                bad.append(i)
        elif dg != by_idx[i]['digest']:
            hash_dependent.append(i)
    return {'pairs': pairs, 'mismatches': len(bad), 'mismatch_idx': bad,
            'digest_differs_under_other_hashseed': sorted(hash_dependent)}


def minimise_and_verify(prop, case, v, shadow_dir):
    """Shrink in a fresh interpreter, replay the result in another one."""
    hs = int(case.get('hashseed', 0))
    job = {'check': prop, 'kind': 'shrink', 'case': case,
           'class_key': v['class_key'],
           'budget': getattr(importlib.import_module('checks.' + prop.lower()),
                             'SHRINK_BUDGET', 300), 'run_timeout': 900}
    res, err = call_worker(job, shadow_dir, hs, 960)
    note = ''
    final = case
    if res and not err and res[0].get('shrunk'):
        final = res[0]['case']
        note = '(minimised: %d tries, %d accepted)' % (res[0]['tries'],
                                                       res[0]['accepted'])
    else:
        note = '(not minimised: %s)' % (err or (res[0].get('note') if res
                                               else 'no result'))
    # replay in a fresh process before reporting
    rres, rerr = call_worker({'check': prop, 'kind': 'replay', 'case': final},
                             shadow_dir, hs, 660)
    ok = bool(rres) and not rerr and rres[0].get('verdict') == 'violation' \
        and any(x['class_key'] == v['class_key']
                for x in rres[0].get('violations', []))
    if not ok and final is not case:
        final = case
        note += ' (minimised case did not replay; reporting original)'
        rres, rerr = call_worker({'check': prop, 'kind': 'replay',
                                  'case': final}, shadow_dir, hs, 660)
        ok = bool(rres) and not rerr and \
            rres[0].get('verdict') == 'violation' and \
            any(x['class_key'] == v['class_key']
                for x in rres[0].get('violations', []))
    if not ok and all(k in case for k in ('seed', 'idx', 'tier')):
        # not reproducible alone: the violation may depend on state an
        # earlier run of the same worker left behind - replay the block
        mod = importlib.import_module('checks.' + prop.lower())
        block = mod.TIERS[case['tier']]['block']
        start = (case['idx'] // block) * block
        seq = {'sequence': {'seed': case['seed'], 'tier': case['tier'],
                            'indices': list(range(start, case['idx'] + 1))},
               'hashseed': hs}
        rres, rerr = call_worker({'check': prop, 'kind': 'replay',
                                  'case': seq}, shadow_dir, hs, 1800)
        ok = bool(rres) and not rerr and \
            rres[0].get('verdict') == 'violation' and \
            any(x['class_key'] == v['class_key']
                for x in rres[0].get('violations', []))
        if ok:
            final = seq
            note += ' (needs the %d preceding runs of its block: state ' \
                    'carried across runs; replay file re-executes them)' \
                    % (case['idx'] - start)
    if not ok:
        note += ' (WARNING: replay in fresh process did not reproduce)'
    path = write_replay(prop, final, v['class_key'], v['message'])
    return path, note


def replay_file(path, out=sys.stdout):
    with open(path) as f:
        body = json.load(f)
    prop = body['property']
    shadow_dir = build.shadow()
    hs = int(body['case'].get('hashseed', 0))
    res, err = call_worker({'check': prop, 'kind': 'replay',
                            'case': body['case']}, shadow_dir, hs, 660)
    if err or not res:
        print('HARNESS-ERROR replay: %s' % err, file=out)
        return 2
    r = res[0]
    if r['verdict'] == 'violation':
        same = [v for v in r['violations']
                if v['class_key'] == body['class_key']]
        for v in (same or r['violations'])[:3]:
            print('  class=%s %s' % (v['class_key'], v['message'][:600]),
                  file=out)
        if 'trace' in r:
            for ln in r['trace'][-40:]:
                print('   ', ln, file=out)
        print('VIOLATION property=%s replay=%s' % (prop, path), file=out)
        print('digest=%s' % r.get('digest'), file=out)
        return 1
    if r['verdict'] == 'harness-error':
        print('HARNESS-ERROR %s' % r.get('error'), file=out)
        return 2
    print('replay: no violation (verdict=%s digest=%s)'
          % (r['verdict'], r.get('digest')), file=out)
    return 0


def evidence(mod, prop, tier, seed, results, wall, det, budget_cut, nviol,
             known_hits, nharness, planned):
    evals = 0
    keys = set()
    counters, faults, probes = {}, {}, {}
    steps = 0
    samples = []
    inter = set()
    for r in results:
        evals += r.get('evals', 0)
        keys.update(r.get('keys', []))
        inter.update(r.get('interleavings', []))
        steps += r.get('steps', 0)
        for name, dst in (('counters', counters), ('faults', faults),
                          ('probes', probes)):
            for k, n in (r.get(name) or {}).items():
                dst[k] = dst.get(k, 0) + n
        if 'sample' in r and len(samples) < 3:
            samples.append(r['sample'])
    if not samples:
        samples = [r.get('case') for r in results[:1] if r.get('case')]
    cov = {
        'evaluations': evals,
        'distinct_nontrivial': len(keys),
        'rule': mod.RULE,
        'samples': samples or ['(no run produced a sample)'],
        'runs': len(results),
        'runs_planned': planned,
        'budget_cut': budget_cut,
        'runs_per_hour': int(len(results) / wall * 3600) if wall else 0,
        'evaluations_per_hour': int(evals / wall * 3600) if wall else 0,
        'seeds': {'base_seed': seed, 'run_indices': [0, len(results)],
                  'derivation': 'splitmix64(seed, property, run_index, '
                                'purpose)'},
        'sim_steps': steps,
        'simulated_time': 'no clock in the library: logical steps only '
                          '(filesystem events + scheduler points) = %d'
                          % steps,
        'faults_fired': faults,
        'reach_probes': probes,
        'counters': counters,
        'determinism': det,
        'components': getattr(mod, 'COMPONENTS', None),
        'not_injectable': ['clock/timers (none in the library)',
                           'network/peers (none)',
                           'allocation failure inside C code'],
        'known_findings_hit': {k: n for k, (_, n) in known_hits.items()},
        'harness_errors': nharness,
        'exhaustive': False,
    }
    if inter:
        cov['distinct_interleavings'] = len(inter)
    extra = getattr(mod, 'evidence_extra', None)
    if extra:
        cov.update(extra(results))
    return {
        'property_id': prop,
        'tier': tier,
        'seed': seed,
        'level': mod.LEVEL,
        'coverage': cov,
        'assumptions': list(getattr(mod, 'ASSUMPTIONS', [])),
        'wall_s': round(wall, 2),
        'violations': nviol,
    }
