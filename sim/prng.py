"""One integer decides everything: a tree of independent PRNG streams.

stream(seed, 'C19', run_index, 'faults') -> random.Random whose state depends
only on the labels.  Separate streams mean that adding a draw in one purpose
(logging never draws at all) does not shift any other purpose.
"""
import hashlib
import random

MASK = (1 << 64) - 1
DEFAULT_SEED = 20261004


def splitmix64(x):
    x = (x + 0x9E3779B97F4A7C15) & MASK
    z = x
    z = ((z ^ (z >> 30)) * 0xBF58476D1CE4E5B9) & MASK
    z = ((z ^ (z >> 27)) * 0x94D049BB133111EB) & MASK
    return z ^ (z >> 31)


def derive(seed, *labels):
    """64-bit sub-seed from a seed and a path of labels (ints or strings)."""
    x = splitmix64(int(seed) & MASK)
    for lab in labels:
        if isinstance(lab, int):
            v = lab & MASK
        else:
            v = int.from_bytes(
                hashlib.blake2b(str(lab).encode(), digest_size=8).digest(),
                'little')
        x = splitmix64(x ^ v)
    return x


def stream(seed, *labels):
    return random.Random(derive(seed, *labels))
