"""Independent Thrift-compact reader, just enough for Parquet footers.

Used as an oracle that does not go through fastparquet's own (Cython) thrift
code: decode(buf) -> ({field_id: value}, bytes_consumed) with structs as dicts,
lists as lists, binary as bytes, ints as ints, bools as bools.

Also footer(file_bytes) -> strict framing check + parsed FileMetaData, and a
few accessors by field id (parquet.thrift):

  FileMetaData: 1 version, 2 schema[], 3 num_rows, 4 row_groups[],
                5 key_value_metadata[], 6 created_by
  SchemaElement: 1 type, 2 type_length, 3 repetition_type, 4 name,
                 5 num_children, 6 converted_type
  RowGroup: 1 columns[], 2 total_byte_size, 3 num_rows
  ColumnChunk: 1 file_path, 2 file_offset, 3 meta_data
  KeyValue: 1 key, 2 value
"""
import struct

T_STOP, T_TRUE, T_FALSE, T_BYTE, T_I16, T_I32, T_I64, T_DOUBLE, T_BINARY, \
    T_LIST, T_SET, T_MAP, T_STRUCT = range(13)


class ThriftError(Exception):
    pass


def _varint(buf, pos):
    shift = 0
    out = 0
    while True:
        if pos >= len(buf):
            raise ThriftError('varint runs past the end')
        b = buf[pos]
        pos += 1
        out |= (b & 0x7F) << shift
        if not b & 0x80:
            return out, pos
        shift += 7
        if shift > 70:
            raise ThriftError('varint too long')


def _zigzag(n):
    return (n >> 1) ^ -(n & 1)


def _value(buf, pos, t):
    if t == T_TRUE:
        return True, pos
    if t == T_FALSE:
        return False, pos
    if t == T_BYTE:
        if pos >= len(buf):
            raise ThriftError('byte past the end')
        v = buf[pos]
        return (v - 256 if v > 127 else v), pos + 1
    if t in (T_I16, T_I32, T_I64):
        v, pos = _varint(buf, pos)
        return _zigzag(v), pos
    if t == T_DOUBLE:
        if pos + 8 > len(buf):
            raise ThriftError('double past the end')
        return struct.unpack('<d', bytes(buf[pos:pos + 8]))[0], pos + 8
    if t == T_BINARY:
        n, pos = _varint(buf, pos)
        if pos + n > len(buf):
            raise ThriftError('binary of %d bytes runs past the end' % n)
        return bytes(buf[pos:pos + n]), pos + n
    if t in (T_LIST, T_SET):
        if pos >= len(buf):
            raise ThriftError('list header past the end')
        h = buf[pos]
        pos += 1
        n = h >> 4
        et = h & 0x0F
        if n == 15:
            n, pos = _varint(buf, pos)
        out = []
        for _ in range(n):
            if et in (T_TRUE, T_FALSE):
                # bools in a list are one byte each
                if pos >= len(buf):
                    raise ThriftError('bool list past the end')
                out.append(buf[pos] == 1)
                pos += 1
            else:
                v, pos = _value(buf, pos, et)
                out.append(v)
        return out, pos
    if t == T_STRUCT:
        return _struct(buf, pos)
    if t == T_MAP:
        n, pos = _varint(buf, pos)
        out = {}
        if n:
            kv = buf[pos]
            pos += 1
            kt, vt = kv >> 4, kv & 0x0F
            for _ in range(n):
                k, pos = _value(buf, pos, kt)
                v, pos = _value(buf, pos, vt)
                out[k] = v
        return out, pos
    raise ThriftError('unknown compact type %d' % t)


def _struct(buf, pos):
    out = {}
    fid = 0
    while True:
        if pos >= len(buf):
            raise ThriftError('struct runs past the end')
        b = buf[pos]
        pos += 1
        if b == 0:
            return out, pos
        delta = b >> 4
        t = b & 0x0F
        if delta:
            fid += delta
        else:
            v, pos = _varint(buf, pos)
            fid = _zigzag(v)
        out[fid], pos = _value(buf, pos, t)


def decode(buf, pos=0):
    """-> (struct dict, position after the struct)."""
    return _struct(buf, pos)


def footer(data, metadata_only=None):
    """Strict framing + parse.  Returns dict(fmd, start, length, problems)."""
    problems = []
    n = len(data)
    if n < 12:
        return {'fmd': None, 'start': None, 'length': None,
                'problems': ['file shorter than 12 bytes']}
    if bytes(data[:4]) != b'PAR1':
        problems.append('first four bytes are not PAR1')
    if bytes(data[-4:]) != b'PAR1':
        problems.append('last four bytes are not PAR1')
    length = struct.unpack('<I', bytes(data[-8:-4]))[0]
    start = n - 8 - length
    if start < 4:
        problems.append('footer length %d larger than the file' % length)
        return {'fmd': None, 'start': start, 'length': length,
                'problems': problems}
    try:
        fmd, end = decode(data, start)
    except ThriftError as e:
        problems.append('footer does not parse: %s' % e)
        return {'fmd': None, 'start': start, 'length': length,
                'problems': problems}
    if end != start + length:
        problems.append('footer struct consumes %d bytes but the stated '
                        'length is %d' % (end - start, length))
    return {'fmd': fmd, 'start': start, 'length': length,
            'problems': problems}


def schema_sig(fmd):
    return [(se.get(4), se.get(1), se.get(3), se.get(6), se.get(5), se.get(2))
            for se in fmd.get(2, [])]


def row_groups(fmd):
    """[(file_path or None, num_rows)]"""
    out = []
    for rg in fmd.get(4, []) or []:
        cols = rg.get(1) or []
        fp = cols[0].get(1) if cols else None
        out.append((fp.decode() if isinstance(fp, bytes) else fp, rg.get(3)))
    return out


def kv(fmd):
    return [(e.get(1), e.get(2)) for e in fmd.get(5, []) or []]
