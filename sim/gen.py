"""Seeded generators shared by the history checks (shapes, frame specs, write
options).  Pure functions of the ``random.Random`` they are given."""
from . import frames as F

PART_KINDS = ('pstr', 'pint', 'pbool', 'pnum')
COL_KINDS = ('i64', 'i32', 'f64', 'str', 'obj', 'bool', 'dt', 'cat', 'u8')


def gen_shape(rng, max_parts=2, col_kinds=COL_KINDS, part_kinds=PART_KINDS,
              part_prefix='p'):
    nparts = rng.choice((0, 0, 1, 1, 2)) if max_parts >= 2 else \
        rng.randrange(0, max_parts + 1)
    parts = {}
    for i in range(nparts):
        kind = rng.choice(part_kinds)
        pool = list(F.PART_POOLS[kind])
        rng.shuffle(pool)
        top = 4 if nparts == 1 else 3
        parts['%s%d' % (part_prefix, i)] = [kind, pool[:rng.randrange(1, min(top, len(pool)) + 1)]]
    cols = F.gen_col_specs(rng, rng.randrange(1, 5), kinds=col_kinds)
    return {'parts': parts, 'cols': cols}


def gen_frame_spec(rng, shape, batch, max_rows=40, min_rows=1, permute=True):
    cols = [['uid', 'uid', 'none', 0, None]]
    for name, kind, nullmode, _, extra in shape['cols']:
        cols.append([name, kind, nullmode, rng.randrange(2 ** 31), extra])
    # a frame uses the shape's partition values or only some of them, so
    # that later frames bring partitions (and combinations) the dataset does
    # not have yet while others already exist
    part = {}
    for n, (k, ch) in shape['parts'].items():
        sub = list(ch)
        if len(sub) > 1 and rng.random() < 0.6:
            sub = rng.sample(sub, rng.randrange(1, len(sub)))
        part[n] = [k, sub, rng.randrange(2 ** 31)]
    if shape.get('pnull') and not any(v[0] == 'pcat' for v in part.values()):
        # some frames carry rows without a partition key (not together with
        # a categorical partition column: pandas' own groupby fails there
        # with an IndexError - nothing fastparquet decides)
        for n in part:
            if rng.random() < 0.5:
                part[n].append(rng.choice((0.15, 0.4, 0.9)))
    order = [c[0] for c in cols] + list(part)
    if permute and rng.random() < 0.5:
        rng.shuffle(order)
    return {'batch': batch, 'nrows': rng.randrange(min_rows, max_rows + 1),
            'cols': cols, 'part': part, 'order': order}


def gen_wopts(rng, nrows, has_cat, knobs, allow_list=True, max_rg=4):
    """Write options; at most ``max_rg`` row groups so that the number of
    part files (and so of fault points) stays bounded."""
    nrg = rng.choice((1, 1, 2, 3, max_rg))
    r = rng.random()
    if nrg == 1 and r < 0.5:
        rgo = None
    elif nrows >= 3 and allow_list and r < 0.35:
        n = min(nrg - 1, nrows - 1)
        rgo = [0] + (sorted(rng.sample(range(1, nrows), n)) if n > 0 else [])
    else:
        rgo = max(1, -(-nrows // nrg))
    while True:
        codec = rng.choice(F.CODECS)
        if F.codec_ok(codec, knobs, has_cat):
            break
    stats = rng.choice(('auto', True, False, 'auto'))
    return {'rgo': rgo, 'codec': codec, 'stats': stats}


def gen_has_nulls(rng, shape):
    # has_nulls='infer' marks pandas-3 `str` columns REQUIRED and then refuses
    # their nulls: a refusal of valid input (C01/C18 matter), keep it out
    infer_ok = not any(c[1] in ('str', 'nbool') and c[2] != 'none'
                       for c in shape['cols'])
    return rng.choice((True, 'infer', True) if infer_ok else (True, True))
