"""Shadow package: fastparquet as it is in /repo's working tree *now*.

  /verif/.build/<hash>/fastparquet/
      *.py, parquet_thrift/, *.pyx ...  -> symlinks into /repo/fastparquet
      cencoding.*.so, speedups.*.so     -> compiled here from /repo's .c files

Python sources are therefore read live from /repo; the C extension modules are
recompiled whenever the generated .c files change (no Cython in the sandbox,
so a .pyx edit cannot be compiled by anybody here).  The directory goes first
on PYTHONPATH and so wins over the editable install.
"""
import hashlib
import os
import shutil
import subprocess
import sys
import sysconfig

REPO = os.environ.get('VERIF_REPO', '/repo')
ROOT = os.path.dirname(os.path.dirname(os.path.abspath(__file__)))
BUILD = os.path.join(ROOT, '.build')
PY = '/venv/bin/python'
EXT = ('cencoding', 'speedups')


def _suffix():
    return sysconfig.get_config_var('EXT_SUFFIX') or \
        '.cpython-312-x86_64-linux-gnu.so'


def shadow(verbose=False):
    src = os.path.join(REPO, 'fastparquet')
    h = hashlib.blake2b(digest_size=8)
    h.update(sys.version.encode())
    h.update(os.path.realpath(REPO).encode())
    have_c = True
    for m in EXT:
        p = os.path.join(src, m + '.c')
        if os.path.exists(p):
            with open(p, 'rb') as f:
                h.update(f.read())
        else:
            have_c = False
            so = os.path.join(src, m + _suffix())
            h.update(b'so' + str(os.path.getmtime(so)).encode())
    d = os.path.join(BUILD, h.hexdigest())
    pkg = os.path.join(d, 'fastparquet')
    stamp = os.path.join(d, '.ok')
    if not os.path.exists(stamp):
        tmp = d + '.tmp%d' % os.getpid()
        shutil.rmtree(tmp, ignore_errors=True)
        os.makedirs(os.path.join(tmp, 'fastparquet'))
        import numpy
        inc = ['-I' + sysconfig.get_paths()['include'],
               '-I' + numpy.get_include()]
        for m in EXT:
            out = os.path.join(tmp, 'fastparquet', m + _suffix())
            c = os.path.join(src, m + '.c')
            if os.path.exists(c):
                cmd = ['gcc', '-O1', '-shared', '-fPIC', '-w'] + inc + \
                    [c, '-o', out]
                if verbose:
                    print('build:', ' '.join(cmd), flush=True)
                subprocess.run(cmd, check=True)
            else:
                shutil.copy2(os.path.join(src, m + _suffix()), out)
        open(os.path.join(tmp, '.ok'), 'w').close()
        try:
            os.rename(tmp, d)
        except OSError:
            shutil.rmtree(tmp, ignore_errors=True)   # lost a race: fine
    # (re)link the python sources: cheap, and picks up added/removed files
    for name in os.listdir(src):
        if name.endswith(('.so', '.c', '.html')) or name in ('__pycache__',
                                                            'test',
                                                            'benchmarks'):
            continue
        dst = os.path.join(pkg, name)
        if not os.path.islink(dst):
            try:
                os.symlink(os.path.join(src, name), dst)
            except FileExistsError:
                pass
    for name in os.listdir(pkg):
        p = os.path.join(pkg, name)
        if os.path.islink(p) and not os.path.exists(p):
            os.unlink(p)
    # drop stale builds of the same tree (keep this one)
    tag = os.path.join(d, '.repo')
    if not os.path.exists(tag):
        with open(tag, 'w') as f:
            f.write(os.path.realpath(REPO))
    for other in os.listdir(BUILD):
        od = os.path.join(BUILD, other)
        if other == os.path.basename(d) or '.tmp' in other:
            continue
        try:
            with open(os.path.join(od, '.repo')) as f:
                same = f.read() == os.path.realpath(REPO)
        except OSError:
            same = True
        if same:
            shutil.rmtree(od, ignore_errors=True)
    return d


def env_for(shadow_dir, hashseed=0):
    env = dict(os.environ)
    env['PYTHONPATH'] = shadow_dir + os.pathsep + ROOT
    env['PYTHONHASHSEED'] = str(hashseed)
    env['FASTPARQUET_VERIF'] = '1'
    env.pop('PYTHONSTARTUP', None)
    return env


if __name__ == '__main__':
    print(shadow(verbose=True))
