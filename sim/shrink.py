"""Greedy delta-debugging over JSON cases.

A check module offers ``shrink_candidates(case)`` yielding strictly simpler
cases (fewer ops, fewer faults, fewer context switches, smaller frames, knobs
closer to defaults).  A candidate is accepted only when the *same violation
class key* reproduces; the loop restarts from the accepted candidate.
"""
import copy


def reproduces(mod, case, class_key):
    res = mod.execute(copy.deepcopy(case))
    if res.get('verdict') != 'violation':
        return None
    for v in res.get('violations', []):
        if v['class_key'] == class_key:
            return v
    return None


def minimise(mod, case, class_key, budget=400):
    tries = 0
    accepted = 0
    v0 = reproduces(mod, case, class_key)
    if v0 is None:
        return {'shrunk': False, 'case': case, 'tries': 1, 'accepted': 0,
                'note': 'original did not reproduce in the shrink process'}
    best = v0.get('case', case)
    message = v0['message']
    progress = True
    while progress and tries < budget:
        progress = False
        for cand in mod.shrink_candidates(best):
            if tries >= budget:
                break
            tries += 1
            v = reproduces(mod, cand, class_key)
            if v is not None:
                best = v.get('case', cand)
                message = v['message']
                accepted += 1
                progress = True
                break
    return {'shrunk': True, 'case': best, 'tries': tries,
            'accepted': accepted, 'message': message}


def drop_each(seq, min_len=0):
    """Candidates: halves first, then single removals (classic ddmin order)."""
    n = len(seq)
    if n <= min_len:
        return
    if n >= 4:
        half = n // 2
        yield seq[:half]
        yield seq[half:]
    for i in range(n - 1, -1, -1):
        if n - 1 >= min_len:
            yield seq[:i] + seq[i + 1:]
