import argparse
import os
import sys

from . import prng


def main(argv):
    ap = argparse.ArgumentParser(prog='verif')
    sub = ap.add_subparsers(dest='cmd', required=True)
    sub.add_parser('setup')
    c = sub.add_parser('check')
    c.add_argument('prop')
    c.add_argument('--tier', default=None)
    c.add_argument('--seed', type=int, default=None)
    r = sub.add_parser('replay')
    r.add_argument('path')
    s = sub.add_parser('selftest')
    s.add_argument('--n', type=int, default=16)
    a = ap.parse_args(argv)

    if a.cmd == 'setup':
        from . import build
        d = build.shadow(verbose=True)
        print('shadow package:', d)
        from . import selftest
        return selftest.smoke(d)
    if a.cmd == 'check':
        from . import runner
        tier = a.tier or os.environ.get('VERIF_TIER') or 'quick'
        seed = a.seed if a.seed is not None else \
            int(os.environ.get('VERIF_SEED') or prng.DEFAULT_SEED)
        return runner.run_check(a.prop.upper(), tier, seed)
    if a.cmd == 'replay':
        from . import runner
        return runner.replay_file(a.path)
    if a.cmd == 'selftest':
        from . import selftest
        return selftest.full(a.n)
    return 2
