"""Helpers shared by the history checks: drive fastparquet's public API on a
SimFS, read a dataset back through a *fresh* handle, list what the summary
metadata references - and a plain reference model of a dataset's content."""
import os
import pickle

import fastparquet
from fastparquet import ParquetFile, write

from . import frames
from .simfs import SimFS

ROOT = '/w'
DS = '/w/ds'


def new_fs(profile='posix', local=False, **kw):
    if local:
        from .localfs import LocalFS
        return LocalFS()
    fs = SimFS(profile=profile, **kw)
    fs.dirs.add('/w')          # pre-existing, durable parent directory
    fs.root = ROOT
    return fs


def is_local(fs):
    return getattr(fs, 'use_defaults', False)


def ds_path(fs, name='ds'):
    return fs.root + '/' + name


def io(fs, remove=False):
    """Keyword arguments that route the library's I/O: the simulated
    filesystem's callables, or nothing at all (library defaults) on LocalFS."""
    if is_local(fs):
        return {}
    if getattr(fs, 'plain_io', False):
        # plain functions instead of bound methods of a filesystem object:
        # the library cannot recover the filesystem from them and takes its
        # "any callable" code paths
        kw = {'open_with': lambda p, mode='rb': fs.open(p, mode),
              'mkdirs': lambda p: fs.mkdirs(p)}
        if remove:
            kw['remove_with'] = lambda p: fs.rm(p)
        return kw
    kw = {'open_with': fs.open, 'mkdirs': fs.mkdirs}
    if remove:
        kw['remove_with'] = fs.rm
    return kw


FILELIKE = set()    # paths opened through a file object instead of by name


def open_pf(path, fs, for_write=False):
    if path in FILELIKE:
        # a data file whose *name* ends in _metadata is taken for a summary
        # file when opened by name; a file object carries no name
        return ParquetFile(open(path, 'rb') if is_local(fs)
                           else fs.open(path, 'rb'))
    if is_local(fs):
        return ParquetFile(path)
    if for_write and getattr(fs, 'plain_io', False):
        return ParquetFile(path, open_with=io(fs)['open_with'])
    return ParquetFile(path, fs=fs)


def cleanup(fs):
    if is_local(fs):
        fs.cleanup()


def clone_fs(snap, profile='posix', **kw):
    fs = SimFS(profile=profile, **kw)
    fs.restore(snap)
    fs.root = ROOT
    return fs


def reset_library_caches():
    """State that could leak from one run into the next."""
    _READER_DEATHS[0] = 0
    from fastparquet import util, json as fpjson
    try:
        util._val_to_num.cache_clear()
    except AttributeError:
        pass
    if hasattr(fpjson, '_codec_cache'):
        try:
            fpjson._codec_cache.clear()
        except Exception:
            pass
    if hasattr(util, 'seps'):
        try:
            util.seps.clear()
        except Exception:
            pass


def w_opts(op):
    """keyword arguments shared by write/append from an op description."""
    kw = {}
    if op.get('rgo') is not None:
        kw['row_group_offsets'] = op['rgo']
    if op.get('codec') is not None:
        kw['compression'] = op['codec']
    if 'stats' in op and op['stats'] is not None:
        kw['stats'] = op['stats']
    return kw


def do_write(fs, path, df, op, scheme, partition_on, extra=None):
    kw = w_opts(op)
    if op.get('has_nulls') is not None:
        kw['has_nulls'] = op['has_nulls']
    if extra:
        kw.update(extra)
    kw.update(io(fs))
    kw.setdefault('write_index', False)
    write(path, df, file_scheme=scheme, partition_on=list(partition_on),
          **kw)


def chunks_of(df, cuts):
    """A one-shot generator of consecutive pieces of df (cuts: fractions)."""
    n = len(df)
    edges = sorted({min(n, max(0, int(c * n))) for c in cuts} | {0, n})
    if len(edges) == 1:
        edges = [0, 0]
    return (df.iloc[a:b] for a, b in zip(edges[:-1], edges[1:]))


def do_append(fs, path, df, op, scheme, partition_on, pf=None):
    """Append through one of the entry points - write(append=True),
    ParquetFile.write_row_groups(frame), write_row_groups(iterator of
    frames); returns the handle used (or None)."""
    kw = w_opts(op)
    if op.get('entry') in ('wrg', 'wrg-iter'):
        if pf is None:
            pf = open_pf(path, fs, for_write=True)
        if df.index.name is not None:
            # write_row_groups writes columns only: a written index is an
            # ordinary column of the stored data
            df = df.reset_index()
        data = df
        if op.get('entry') == 'wrg-iter':
            data = chunks_of(df, op.get('cuts') or ())
        extra = {'sort_pnames': True} if op.get('sort_pnames') else {}
        if op.get('sort_key') == 'const':
            # a key under which all row groups tie: the (stable) sort the
            # documentation speaks of leaves the order alone
            extra['sort_key'] = lambda rg: 'k'
        pf.write_row_groups(data, kw.get('row_group_offsets'),
                            compression=kw.get('compression'),
                            stats=kw.get('stats', 'auto'), **extra, **io(fs))
        return pf
    kw.update(io(fs))
    write(path, df, file_scheme=scheme, partition_on=list(partition_on),
          append=True, **kw)
    return None


def referenced_files(pf):
    """Absolute paths of the data files the handle's metadata references."""
    out = []
    for rg in pf.row_groups:
        out.append(pf.row_group_filename(rg))
    return out


class ReaderCrashed(Exception):
    """The reader killed the interpreter (signal) on this dataset."""


READ_KW = {}        # extra to_pandas() arguments of the current run
READ_LIMIT = 20     # seconds an isolated fresh open + full read may take
_READER_DEATHS = [0]


def read_all(fs, path):
    """Fresh open + full read.  Returns dict(canon, cols, nrg, nrows, files,
    kinds).  With VERIF_ISOLATE=1 the read happens in a forked child so that a
    reader that crashes the interpreter on damaged bytes is reported as an
    unreadable dataset instead of taking the harness down."""
    if os.environ.get('VERIF_ISOLATE') != '1':
        return _read_all(fs, path)
    if _READER_DEATHS[0] >= 3:
        # this run has already shown three datasets that kill or stall the
        # reader: it is a violating run, do not spend minutes on more
        raise ReaderCrashed('reader crashed or stalled on earlier datasets '
                            'of this run; not tried again')
    r, w = os.pipe()
    pid = os.fork()
    if pid == 0:
        code = 0
        try:
            os.close(r)
            try:
                out = ('ok', _read_all(fs, path))
            except BaseException as e:
                out = ('exc', type(e).__name__, str(e))
            with os.fdopen(w, 'wb') as f:
                pickle.dump(out, f)
        except BaseException:
            code = 3
        finally:
            os._exit(code)
    os.close(w)
    # a reader that spins on damaged bytes is killed and reported, like one
    # that crashes
    import select
    import signal
    import time
    deadline = time.monotonic() + READ_LIMIT
    chunks = []
    timed_out = False
    while True:
        left = deadline - time.monotonic()
        if left <= 0:
            timed_out = True
            os.kill(pid, signal.SIGKILL)
            break
        ready, _, _ = select.select([r], [], [], min(left, 5.0))
        if ready:
            b = os.read(r, 1 << 20)
            if not b:
                break
            chunks.append(b)
    os.close(r)
    blob = b''.join(chunks)
    _, status = os.waitpid(pid, 0)
    if timed_out:
        _READER_DEATHS[0] += 1
        raise ReaderCrashed('reader did not finish within %d s' % READ_LIMIT)
    if os.WIFSIGNALED(status):
        _READER_DEATHS[0] += 1
        raise ReaderCrashed('reader crashed the interpreter with signal %d'
                            % os.WTERMSIG(status))
    out = pickle.loads(blob)
    if out[0] == 'ok':
        return out[1]
    raise ReaderFailed('%s: %s' % (out[1], out[2]))


class OtherProcessDied(Exception):
    """The forked "other process" was killed by a signal."""


def in_other_process(fs, fn):
    """Run fn() as *another process* would: in a forked child, so that none of
    the module-level state it builds (caches, memoised handles) exists in this
    process afterwards, and nothing this process has cached is refreshed.
    What the child did to a SimFS store is shipped back (files, directories,
    event log, monitor hits); a LocalFS directory is shared anyway.
    Returns ('ok', value) or ('exc', type name, message)."""
    n0 = len(getattr(fs, 'log', ()))
    r, w = os.pipe()
    pid = os.fork()
    if pid == 0:
        code = 0
        try:
            os.close(r)
            try:
                out = ('ok', fn())
            except BaseException as e:
                out = ('exc', type(e).__name__, str(e))
            state = None
            if not is_local(fs):
                state = {'files': fs.files, 'dirs': fs.dirs,
                         'mtimes': fs.mtimes,
                         'log': fs.log[n0:], 'seq': fs.seq,
                         'hits': fs.hits, 'fired': fs.fired,
                         'op_calls': fs.op_calls, 'reads': fs.reads}
            with os.fdopen(w, 'wb') as f:
                pickle.dump((out, state), f)
        except BaseException:
            code = 3
        finally:
            os._exit(code)
    os.close(w)
    with os.fdopen(r, 'rb') as f:
        blob = f.read()
    _, status = os.waitpid(pid, 0)
    if os.WIFSIGNALED(status) or not blob:
        raise OtherProcessDied('signal %s / exit %s' % (
            os.WTERMSIG(status) if os.WIFSIGNALED(status) else '-',
            os.WEXITSTATUS(status) if os.WIFEXITED(status) else '-'))
    out, state = pickle.loads(blob)
    if state is not None:
        fs.files = {p: bytearray(b) for p, b in state['files'].items()}
        fs.dirs = set(state['dirs'])
        fs.mtimes = dict(state['mtimes'])
        fs.log.extend(state['log'])
        for k in ('seq', 'hits', 'fired', 'op_calls', 'reads'):
            setattr(fs, k, state[k])
    return out


class ReaderFailed(Exception):
    """Exception raised by the reader inside the isolated child."""


def _read_all(fs, path):
    pf = open_pf(path, fs)
    df = pf.to_pandas(**READ_KW)
    canon = frames.canon_frame(df)
    return {
        'canon': canon,
        'cols': list(df.columns),
        'nrg': len(pf.row_groups),
        'nrows': len(df),
        'count': pf.count(),
        'rg_rows': [rg.num_rows for rg in pf.row_groups],
        'files': referenced_files(pf),
        'kinds': {c: frames.coarse_kind(df[c].dtype) for c in df.columns},
    }


def content_rows(snap, cols=None):
    cols = cols or sorted(snap['canon'])
    return frames.rows_of(snap['canon'], cols)


def by_uid(canon):
    """{uid: {col: cell}} from a canonical frame that has a 'uid' column."""
    uids = [c[1] if c else None for c in canon['uid']]
    cols = [c for c in canon if c != 'uid']
    out = {}
    for i, u in enumerate(uids):
        out[u] = {c: canon[c][i] for c in cols}
    return uids, out


class Model:
    """Reference model: ordered list of batches, each {uid: {col: cell}}."""

    def __init__(self):
        self.batches = []      # list of (uids list, {uid: row})

    def add_frame(self, df, partition_on=()):
        canon = frames.canon_frame(df)
        uids, rows = by_uid(canon)
        # rows whose partition key is null are dropped by groupby (documented)
        keep = [u for u in uids
                if all(rows[u][p] is not None for p in partition_on)]
        self.batches.append((keep, {u: rows[u] for u in keep}))

    def all_uids(self):
        return [u for b in self.batches for u in b[0]]

    def row(self, uid):
        for uids, rows in self.batches:
            if uid in rows:
                return rows[uid]
        return None

    def nrows(self):
        return sum(len(b[0]) for b in self.batches)


def compare_to_model(snap, model, partitioned, ordered=True):
    """-> list of mismatch descriptions (empty = equal).

    unpartitioned: uid sequence equals the concatenation of batches.
    partitioned:   uid sequence splits into consecutive segments, segment i a
                   permutation of batch i.
    every cell equal to the model's."""
    errs = []
    canon = snap['canon']
    if 'uid' not in canon:
        return ['no uid column in read-back frame: %r' % snap['cols']]
    got_uids, got_rows = by_uid(canon)
    exp = model.all_uids()
    if len(got_uids) != len(exp):
        errs.append('row count %d != model %d' % (len(got_uids), len(exp)))
    if len(set(got_uids)) != len(got_uids):
        errs.append('duplicate uids read back')
    if not ordered:
        if sorted(got_uids, key=repr) != sorted(exp, key=repr):
            errs.append('uid multiset differs: got %r.. expected %r..'
                        % (sorted(got_uids, key=repr)[:8],
                           sorted(exp, key=repr)[:8]))
    elif not partitioned:
        if got_uids != exp:
            errs.append('uid order differs: got %r.. expected %r..'
                        % (got_uids[:12], exp[:12]))
    else:
        pos = 0
        for bi, (uids, _) in enumerate(model.batches):
            seg = got_uids[pos:pos + len(uids)]
            if sorted(seg, key=repr) != sorted(uids, key=repr):
                errs.append('segment %d is not a permutation of batch %d: '
                            'got %r.. expected %r..'
                            % (bi, bi, seg[:8], uids[:8]))
                break
            pos += len(uids)
    if snap['count'] != len(got_uids):
        errs.append('count() %d != rows read %d' % (snap['count'],
                                                    len(got_uids)))
    # cells
    bad = 0
    for u in got_uids:
        m = model.row(u)
        if m is None:
            continue
        g = got_rows[u]
        for c, cell in m.items():
            if c not in g:
                if bad < 3:
                    errs.append('column %s missing in read-back' % c)
                bad += 1
            elif g[c] != cell:
                if bad < 3:
                    errs.append('cell uid=%s col=%s got %r expected %r'
                                % (u, c, g[c], cell))
                bad += 1
    if bad > 3:
        errs.append('... %d mismatching cells in total' % bad)
    return errs


def diff_snap(a, b):
    """Exact comparison of two read_all() results (content, order, shape)."""
    errs = []
    if a['cols'] != b['cols']:
        errs.append('columns %r != %r' % (a['cols'], b['cols']))
    if a['nrg'] != b['nrg']:
        errs.append('row groups %d != %d' % (a['nrg'], b['nrg']))
    if a['nrows'] != b['nrows']:
        errs.append('rows %d != %d' % (a['nrows'], b['nrows']))
    if not errs and a['canon'] != b['canon']:
        for c in a['cols']:
            if a['canon'][c] != b['canon'][c]:
                for i, (x, y) in enumerate(zip(a['canon'][c], b['canon'][c])):
                    if x != y:
                        errs.append('col %s row %d: %r != %r' % (c, i, x, y))
                        break
                break
    if a['kinds'] != b['kinds']:
        errs.append('dtype kinds %r != %r' % (a['kinds'], b['kinds']))
    return errs
