"""Seeded frame specs, canonical comparison, swarm knobs, poison allocator.

A frame spec is plain JSON data and self-contained: the frame it denotes does
not depend on any other op of a history, so ops can be dropped or reordered
during shrinking.

    {'batch': 3, 'nrows': 17,
     'cols': [[name, kind, nullmode, vseed, extra], ...],   # in write order
     'part': {name: [kind, [values...]]}}                   # partition cols

Every frame carries an int64 column ``uid`` = batch*10**6 + row, unique over the
whole history, so every row read back is attributable to exactly one write.
"""
import math
import random
import struct

import numpy as np
import pandas as pd

# column kinds in the generators' domain (see DESIGN 3.4 for the exclusions)
KINDS = ('i64', 'i32', 'u8', 'u16', 'f64', 'f32', 'str', 'obj', 'bytes',
         'bool', 'dt', 'cat', 'nbool')
TEXT = ['', 'a', 'b', 'zz', 'Zürich', '北京', 'x' * 40, 'null', 'nan', 'None',
        'a/b', 'k=v', ' sp ', 'q', 'y',
        # longer than 64 bytes with a long common beginning (min/max
        # statistics of such values are what writers like to clip)
        'p' * 70 + 'a', 'p' * 70 + 'b']
CATS = ['x', 'y', 'q', 'w', 'long-label-' * 3, 'é']


def gen_col_specs(rng, ncols, kinds=KINDS, cat_fixed=True):
    cols = []
    for i in range(ncols):
        kind = rng.choice(kinds)
        nullmode = rng.choice(('none', 'some', 'some', 'all')) \
            if kind in ('f64', 'f32', 'str', 'obj', 'dt', 'cat', 'nbool',
                        'bytes', 'dttz', 'json') else 'none'
        if nullmode == 'all' and kind in ('bytes', 'f64', 'f32', 'dt'):
            # all-NaN float / all-NaT chunks + data page v2 + small pages do not
            # survive a plain write->read today (C01 domain), keep them out
            nullmode = 'some'
        extra = None
        if kind == 'cat':
            extra = CATS[:rng.randrange(1, len(CATS) + 1)]
        cols.append(['c%d_%s' % (i, kind), kind, nullmode, 0, extra])
    return cols


def _col_values(kind, nullmode, n, rng, extra):
    def isnull(i):
        if nullmode == 'none':
            return False
        if nullmode == 'all':
            return True
        return rng.random() < 0.3
    nulls = [isnull(i) for i in range(n)]
    if nullmode == 'some' and n:
        # the writer infers the encoding of an object column from its first
        # non-null values; a first batch without any would fix the column as
        # raw bytes and later text batches would be refused (input-domain
        # matter): keep row 0 non-null
        nulls[0] = False
    if kind in ('i64', 'i32', 'u8', 'u16'):
        lo, hi = {'i64': (-2**62, 2**62), 'i32': (-2**31, 2**31 - 1),
                  'u8': (0, 255), 'u16': (0, 65535)}[kind]
        pool = [lo, hi, 0, 1, 7]
        vals = [rng.choice(pool) if rng.random() < 0.3
                else rng.randrange(lo, hi + 1) for _ in range(n)]
        dt = {'i64': 'int64', 'i32': 'int32', 'u8': 'uint8',
              'u16': 'uint16'}[kind]
        return pd.Series(np.array(vals, dtype=dt))
    if kind in ('f64', 'f32'):
        pool = [0.0, -0.0, 1.5, -2.25, 1e300 if kind == 'f64' else 1e30,
                float('inf'), -float('inf'), 5e-324 if kind == 'f64' else 1e-40]
        vals = [float('nan') if nulls[i] else
                (rng.choice(pool) if rng.random() < 0.3
                 else rng.uniform(-1e6, 1e6)) for i in range(n)]
        return pd.Series(np.array(vals,
                                  dtype='float64' if kind == 'f64'
                                  else 'float32'))
    if kind in ('str', 'obj'):
        vals = [None if nulls[i] else rng.choice(TEXT) for i in range(n)]
        if kind == 'str':
            return pd.Series(vals, dtype='str')
        return pd.Series(vals, dtype='object')
    if kind == 'bytes':
        vals = [None if nulls[i] else
                bytes(rng.randrange(256) for _ in range(rng.randrange(0, 6)))
                for i in range(n)]
        return pd.Series(vals, dtype='object')
    if kind == 'bool':
        return pd.Series(np.array([rng.random() < 0.5 for _ in range(n)],
                                  dtype=bool))
    if kind == 'nbool':
        vals = [pd.NA if nulls[i] else (rng.random() < 0.5) for i in range(n)]
        return pd.Series(vals, dtype='boolean')
    if kind == 'dt':
        base = 1_500_000_000_000_000        # us since epoch
        vals = [np.datetime64('NaT') if nulls[i] else
                np.datetime64(base + rng.randrange(-10**15, 10**15), 'us')
                for i in range(n)]
        # extra: resolution of the column (default ns)
        return pd.Series(np.array(vals, dtype='datetime64[us]')
                         .astype('datetime64[%s]' % (extra or 'ns')))
    if kind == 'dttz':
        base = 1_500_000_000_000_000
        vals = [np.datetime64('NaT') if nulls[i] else
                np.datetime64(base + rng.randrange(-10**14, 10**14), 'us')
                for i in range(n)]
        return pd.Series(np.array(vals, dtype='datetime64[us]')
                         .astype('datetime64[ns]')).dt.tz_localize(
                             'UTC').dt.tz_convert(extra or 'Europe/Paris')
    if kind == 'json':
        def obj():
            r = rng.random()
            if r < 0.4:
                return {'a': rng.randrange(100), 'b': [1, 'x', None]}
            if r < 0.7:
                return [rng.randrange(10), {'k': rng.choice(TEXT)}]
            return {'t': rng.choice(TEXT), 'n': None}
        vals = [None if nulls[i] else obj() for i in range(n)]
        return pd.Series(vals, dtype='object')
    if kind == 'cat':
        labels = list(extra)
        vals = [None if nulls[i] else rng.choice(labels) for i in range(n)]
        return pd.Series(pd.Categorical(vals, categories=labels))
    raise ValueError(kind)


PART_POOLS = {
    'pstr': ['a', 'b', 'xy', 'x', 'Z z', 'A#1', '50%', "it's", 'q?',
             '[x]', 'a^b', 'é', ''],
    'pnum': ['1', '02', '3.5', '10'],         # numeric-looking text
    'pint': [0, 1, 7, -3, 12],
    'pbool': [True, False],
    'pfloat': [0.5, 1.0, 0.0, -2.0, 3.0],
    'pcat': ['x', 'y', 'z', 'w'],
    'pts': ['2020-01-01', '2020-01-02T03:04:05', '1999-12-31',
            # two instants within one microsecond of each other
            '2020-01-01T00:00:00.000000123', '2020-01-01T00:00:00.000000124'],
}


def part_series(kind, vals):
    # None = missing partition key (groupby drops such rows: documented);
    # int and bool columns cannot hold one
    if kind in ('pint', 'pbool'):
        vals = [v for v in vals]
        assert None not in vals
    if kind == 'pfloat':
        vals = [float('nan') if v is None else v for v in vals]
    if kind == 'pts':
        return pd.Series(pd.to_datetime(vals, format='ISO8601')).astype('datetime64[ns]')
    if kind == 'pint':
        return pd.Series(np.array(vals, dtype='int64'))
    if kind == 'pbool':
        return pd.Series(np.array(vals, dtype=bool))
    if kind == 'pfloat':
        return pd.Series(np.array(vals, dtype='float64'))
    if kind == 'pcat':
        # categorical partition column: categories that do not occur in a
        # chunk give empty groups in the writer's groupby
        return pd.Series(pd.Categorical(vals, categories=PART_POOLS['pcat']))
    return pd.Series(vals, dtype='object')


def build_frame(spec):
    """spec -> DataFrame (deterministic)."""
    n = spec['nrows']
    data = {}
    for name, kind, nullmode, vseed, extra in spec['cols']:
        if kind == 'uid':
            data[name] = pd.Series(np.arange(n, dtype='int64')
                                   + spec['batch'] * 10**6)
            continue
        rng = random.Random(vseed)
        data[name] = _col_values(kind, nullmode, n, rng, extra)
    for name, pspec in (spec.get('part') or {}).items():
        kind, choices, pseed = pspec[:3]
        pnull = pspec[3] if len(pspec) > 3 else 0
        rng = random.Random(pseed)
        vals = [rng.choice(choices) for _ in range(n)]
        if pnull and kind not in ('pint', 'pbool'):
            nrng = random.Random(pseed + 1)
            # row 0 keeps its key: a frame made only of key-less rows writes
            # nothing, and a dataset created from one has no partitioning
            vals = [None if i and nrng.random() < pnull else v
                    for i, v in enumerate(vals)]
        data[name] = part_series(kind, vals)
    if spec.get('index'):
        # a written (non-range) index: unique per row over the whole history
        kind = spec['index']
        u = np.arange(n, dtype='int64') + spec['batch'] * 10**6
        data['k'] = pd.Series(u * 3 + 1) if kind == 'i64' else \
            pd.Series(['r%d' % x for x in u], dtype='object')
    order = spec.get('order') or list(data)
    if spec.get('index') and 'k' not in order:
        order = list(order) + ['k']
    df = pd.DataFrame({k: data[k] for k in order})
    if n == 0:
        # keep dtypes for empty frames
        df = pd.DataFrame({k: data[k].iloc[:0] for k in order})
    if spec.get('dup_labels') and n:
        # row labels that repeat (a frame glued together with pd.concat
        # without ignore_index); they are not stored
        df.index = np.arange(n) // 2
    return df


# --------------------------------------------------------------- canonical form

def canon_cell(v):
    """Canonical (kind, value) of a cell, independent of the container dtype."""
    if v is None or v is pd.NA or v is pd.NaT:
        return None
    if isinstance(v, (bool, np.bool_)):
        return ('b', bool(v))
    if isinstance(v, (int, np.integer)):
        return ('i', int(v))
    if isinstance(v, (float, np.floating)):
        f = float(v)
        if math.isnan(f):
            return None
        return ('f', struct.pack('<d', f).hex())
    if isinstance(v, str):
        return ('s', v)
    if isinstance(v, (bytes, bytearray, memoryview)):
        return ('y', bytes(v).hex())
    if isinstance(v, pd.Timestamp):
        return ('t', int(v.value))
    if isinstance(v, np.datetime64):
        if np.isnat(v):
            return None
        return ('t', int(v.astype('datetime64[ns]').astype('int64')))
    return ('?', repr(v))


def canon_series(s):
    """list of canonical cells for a Series of any dtype."""
    dt = s.dtype
    if isinstance(dt, pd.CategoricalDtype):
        cats = list(dt.categories)
        ccats = [canon_cell(c) for c in cats]
        # the reader builds categoricals through a fast path that skips
        # validation, so a code may lie outside the category list
        return [None if c < 0 else ccats[c] if c < len(ccats)
                else ('badcode', c) for c in s.cat.codes.tolist()]
    kind = getattr(dt, 'kind', 'O')
    if isinstance(dt, pd.DatetimeTZDtype):
        s = s.dt.tz_convert('UTC').dt.tz_localize(None)
    if kind == 'M':
        a = s.to_numpy().astype('datetime64[ns]')
        iv = a.astype('int64').tolist()
        nat = np.isnat(a).tolist()
        return [None if nat[i] else ('t', iv[i]) for i in range(len(iv))]
    if kind == 'f' and dt == np.float32:
        # a float32 compares by its own bit pattern widened exactly
        return [canon_cell(x) for x in s.to_numpy().astype('float64').tolist()]
    if kind in 'iub' and not isinstance(dt, pd.api.extensions.ExtensionDtype):
        return [canon_cell(x) for x in s.to_numpy().tolist()]
    return [canon_cell(x) for x in s.tolist()]


def canon_frame(df, cols=None):
    """{col: [cells]} for the requested columns (default all)."""
    return {c: canon_series(df[c]) for c in (cols or list(df.columns))}


def rows_of(canon, cols):
    n = len(next(iter(canon.values()))) if canon else 0
    return [tuple(canon[c][i] for c in cols) for i in range(n)]


def coarse_kind(dtype):
    """dtype family used for 'an int column must not come back float'."""
    if isinstance(dtype, pd.CategoricalDtype):
        return 'cat'
    k = getattr(dtype, 'kind', 'O')
    name = str(dtype)
    if name in ('boolean',):
        return 'b'
    if name.startswith(('Int', 'UInt')):
        return 'i'
    if name in ('str', 'string') or name.startswith('string'):
        return 'O'
    return {'i': 'i', 'u': 'i', 'f': 'f', 'b': 'b', 'M': 'M', 'O': 'O',
            'U': 'O', 'S': 'O', 'T': 'O'}.get(k, k)


# -------------------------------------------------------------------- knobs

CODECS = [None, 'SNAPPY', 'GZIP', 'ZSTD', 'LZ4', 'BROTLI']


def gen_knobs(rng):
    """Module-level tuning knobs for one run (swarm style)."""
    return {
        'page': rng.choice((128, 256, 4096, None)),   # >= one 71-byte text value per page
        'v2': rng.random() < 0.4,
    }


class Knobs:
    """Context manager: set writer module globals, restore afterwards."""

    def __init__(self, knobs):
        self.k = knobs or {}

    def __enter__(self):
        from fastparquet import writer
        self.saved = (writer.MAX_PAGE_SIZE, writer.DATAPAGE_VERSION)
        if self.k.get('page'):
            writer.MAX_PAGE_SIZE = self.k['page']
        writer.DATAPAGE_VERSION = 2 if self.k.get('v2') else 1
        return self

    def __exit__(self, *a):
        from fastparquet import writer
        writer.MAX_PAGE_SIZE, writer.DATAPAGE_VERSION = self.saved


def codec_ok(codec, knobs, has_cat):
    """Combinations that do not survive a plain write->read today (C01 domain,
    measured): categorical + data page v2 + LZ4; data page v2 + uncompressed
    + a page that holds only nulls (reachable whenever pages are small)."""
    v2 = knobs.get('v2')
    if codec == 'LZ4' and v2 and has_cat:
        return False
    if codec is None and v2 and knobs.get('page') in (64, 128, 256):
        return False
    return True


# ------------------------------------------------------------ poison allocator

class _NpProxy:
    """Stands in for ``fastparquet.dataframe.np``: ``empty`` returns a block
    filled with a deterministic poison instead of heap noise, so a cell that
    the reader never wrote is a visible, repeatable value."""

    def __init__(self, real, pattern):
        self._real = real
        self._pat = pattern

    def __getattr__(self, name):
        return getattr(self._real, name)

    def empty(self, shape, dtype=float, *a, **kw):
        arr = self._real.empty(shape, dtype, *a, **kw)
        k = arr.dtype.kind
        if k == 'O' or arr.size == 0:
            return arr
        if k == 'b':
            arr[...] = True
        elif k in 'iu':
            arr.view('u1')[...] = self._pat
        elif k == 'f':
            arr[...] = -7.0e77 if arr.dtype.itemsize == 8 else -7.0e33
        elif k in 'mM':
            arr.view('i8')[...] = 0x5A5A5A5A5A5A5A5A
        else:
            arr.view('u1')[...] = self._pat
        return arr


class Poison:
    def __init__(self, pattern=0x5A):
        self.pattern = pattern

    def __enter__(self):
        import fastparquet.dataframe as fdf
        self.mod = fdf
        self.saved = fdf.np
        fdf.np = _NpProxy(self.saved, self.pattern)
        return self

    def __exit__(self, *a):
        self.mod.np = self.saved
