"""SimFS - the only storage the system under test sees.

An in-memory fsspec filesystem with
  * a global event log of every mutating call (sequence number, op, path,
    details, innermost fastparquet call site),
  * monitors evaluated at the event (protected paths, write floors, rename
    clobber),
  * a fault plan (fail the k-th mutating call of the current operation),
  * a durability / crash model (what a restarted process finds).

Nothing in here draws random numbers on its own: every random decision takes
an explicit ``random.Random`` from the caller, and logging never draws.
"""
import errno
import hashlib
import io
import sys

from fsspec.spec import AbstractFileSystem


class SimCrash(BaseException):
    """The simulated process died.  Sticky: every later SimFS call re-raises."""


# process-local registry so that a pickled ParquetFile comes back attached to
# the same store (pickle goes through _lookup, never through the dict itself)
import weakref
_REG = weakref.WeakValueDictionary()
_NEXT = [0]


def _lookup(fsid):
    return _REG[fsid]


FAULT_KINDS = ('eio', 'enospc_partial', 'enospc_persistent', 'eio_partial',
               'eio_close', 'crash', 'interrupt')

_PKG_FILES = ('api.py', 'writer.py', 'core.py', 'util.py', 'schema.py',
              'dataframe.py', 'json.py', 'compression.py', 'encoding.py',
              'converted_types.py')


def _site():
    """Innermost fastparquet frame (module.function) on the stack."""
    f = sys._getframe(2)
    while f is not None:
        fn = f.f_code.co_filename
        if '/fastparquet/' in fn and '/test' not in fn:
            base = fn.rsplit('/', 1)[1]
            if base in _PKG_FILES:
                return '%s.%s' % (base[:-3], f.f_code.co_name)
        f = f.f_back
    return '-'


class SimFile:
    """A handle opened for writing ('wb', 'ab', 'rb+', 'r+b', 'wb+')."""

    def __init__(self, fs, path, mode):
        self.fs, self.path, self.mode = fs, path, mode
        self.closed = False
        self.pos = 0
        self.buffered = fs.profile == 'objstore'
        if self.buffered:
            # object store: nothing visible until a successful close
            self.buf = bytearray()
        else:
            self.buf = fs.files[path]       # write-through (POSIX)
        if 'a' in mode:
            self.pos = len(self.buf)
        self.name = path

    # -- plumbing ------------------------------------------------------------
    def readable(self):
        return '+' in self.mode or 'r' in self.mode

    def writable(self):
        return True

    def seekable(self):
        return True

    def __enter__(self):
        return self

    def __exit__(self, *a):
        self.close()

    def _check(self):
        if self.closed:
            raise ValueError('I/O operation on closed file')

    # -- reads / positioning (not fault points) --------------------------------
    def tell(self):
        self._check()
        return self.pos

    def seek(self, off, whence=0):
        self._check()
        self.fs._alive()
        if whence == 0:
            p = off
        elif whence == 1:
            p = self.pos + off
        else:
            p = len(self.buf) + off
        if p < 0:
            raise OSError(errno.EINVAL, 'negative seek position')
        self.pos = p
        return p

    def read(self, n=-1):
        self._check()
        self.fs._alive()
        if self.fs.track_reads:
            self.fs._revent('read', self.path)
        if n is None or n < 0:
            out = bytes(self.buf[self.pos:])
        else:
            out = bytes(self.buf[self.pos:self.pos + n])
        self.pos += len(out)
        return out

    # -- mutating calls (fault points) -----------------------------------------
    def write(self, b):
        self._check()
        b = bytes(b)
        ev = self.fs._event('write', self.path, at=self.pos, n=len(b))
        cut = self.fs._fault(ev, can_partial=True, nbytes=len(b))
        if cut is not None:
            part = b[:cut]
            self._apply(part)
            ev[3]['applied'] = len(part)
            eno = errno.EIO if ev[3].get('fault') == 'eio_partial' \
                else errno.ENOSPC
            raise OSError(eno, 'injected %s after %d of %d bytes'
                          % (errno.errorcode[eno], len(part), len(b)),
                          self.path)
        self._apply(b)
        return len(b)

    def _apply(self, b):
        if not b:
            return
        end = self.pos + len(b)
        if self.pos > len(self.buf):
            self.buf.extend(b'\0' * (self.pos - len(self.buf)))
        self.buf[self.pos:end] = b
        if not self.buffered:
            self.fs._journal_write(self.path, self.pos, b)
        self.pos = end

    def truncate(self, size=None):
        self._check()
        if size is None:
            size = self.pos
        ev = self.fs._event('truncate', self.path, size=size)
        self.fs._fault(ev)
        if size < len(self.buf):
            del self.buf[size:]
        else:
            self.buf.extend(b'\0' * (size - len(self.buf)))
        if not self.buffered:
            self.fs._journal_trunc(self.path, size)
        return size

    def flush(self):
        self._check()

    def close(self):
        if self.closed:
            return
        self.closed = True            # like a real fd: gone even if close fails
        self.fs.open_handles.discard(self)
        ev = self.fs._event('close', self.path)
        try:
            self.fs._fault(ev, is_close=True)
        except OSError:
            # a failed close: POSIX data already went through; an object
            # store upload did not happen
            raise
        if self.buffered:
            self.fs.files[self.path] = bytearray(self.buf)
            self.fs.closed_ok.add(self.path)
        else:
            self.fs.closed_ok.add(self.path)


class SimReadFile(io.BytesIO):
    """A handle opened 'rb': a private copy of the bytes.  Its reads are
    read-side fault points while the filesystem tracks reads."""

    def __init__(self, fs, path, data):
        super().__init__(data)
        self._fs, self.name = fs, path

    def read(self, n=-1):
        if self._fs.track_reads:
            self._fs._revent('read', self.name)
        return super().read(-1 if n is None else n)

    def readinto(self, b):
        if self._fs.track_reads:
            self._fs._revent('read', self.name)
        return super().readinto(b)


class SimFS(AbstractFileSystem):
    protocol = 'sim'
    cachable = False
    root_marker = ''

    def __init__(self, profile='posix', strict_rename=False, **kw):
        super().__init__(**kw)
        _NEXT[0] += 1
        self.sim_id = _NEXT[0]
        _REG[self.sim_id] = self
        self.profile = profile          # 'posix' | 'objstore'
        self.strict_rename = strict_rename
        self.files = {}                 # path -> bytearray
        self.mtimes = {}                # path -> seq of last modification
        self.dirs = {''}
        self.log = []                   # [seq, op, path, detail, site]
        self.seq = 0
        self.reads = 0
        # monitors
        self.protected = set()
        self.floors = {}                # path -> offset below which no write
        self.hits = []                  # monitor hits
        # faults
        self.op_calls = 0               # mutating calls since begin_op()
        self.plan = {}                  # k -> kind
        # read-side calls (open:rb, read, cat, info, ls) are numbered apart
        # from the mutating ones and only while track_reads is on, so that the
        # numbering of mutating calls is the same with and without them
        self.track_reads = False
        self.rd_calls = 0
        self.rplan = {}                 # j -> 'eio_read'
        self.rlog = []                  # [j, op, path, mutating k so far, site]
        self.double = False             # arm an eio on the call after a fault
        self._full = False              # device full: every write fails
        self._double_armed = False
        self._double_wait = 0
        self.fault_rng = None
        self.fired = []                 # (k, kind, op, path, site)
        self.crashed = False
        self.open_handles = set()
        self.closed_ok = set()
        self.io_hook = None             # scheduler pre-emption hook
        # durability journal since sync_point()
        self.j_created = {}             # path -> True (did not exist at sync)
        self.j_orig = {}                # path -> bytes at sync (pre-existing)
        self.j_ops = {}                 # path -> [('w', off, bytes)|('t', size)]
        self.j_dirs = set()

    def __reduce__(self):
        return (_lookup, (self.sim_id,))

    # ------------------------------------------------------------------ paths
    @classmethod
    def _strip_protocol(cls, path):
        if isinstance(path, (list, tuple)):
            return [cls._strip_protocol(p) for p in path]
        path = str(path)
        if path.startswith('sim://'):
            path = path[6:]
        if len(path) > 1:
            path = path.rstrip('/')
        return path

    @staticmethod
    def _parent(path):
        return path.rsplit('/', 1)[0] if '/' in path else ''

    # --------------------------------------------------------------- bookkeeping
    def _alive(self):
        if self.crashed:
            raise SimCrash('process is dead')

    def _event(self, op, path, **detail):
        self._alive()
        if self.io_hook is not None:
            self.io_hook(op, path)
        self.seq += 1
        self.op_calls += 1
        if op in ('write', 'truncate', 'close') or op.startswith('open:'):
            self.mtimes[path] = self.seq
        elif op == 'rename':
            self.mtimes[detail['dst']] = self.seq
        detail['k'] = self.op_calls
        ev = [self.seq, op, path, detail, _site()]
        self.log.append(ev)
        # monitors, evaluated at the event
        if op.startswith('open:') or op in ('rm', 'truncate'):
            if path in self.protected:
                self.hits.append(('%s-protected' % op, path, ev[4], self.seq))
            fl = self.floors.get(path)
            if fl is not None:
                if op.startswith('open:') and 'w' in op:
                    self.hits.append(('open-truncates-existing-file', path,
                                      ev[4], self.seq))
                elif op == 'rm':
                    self.hits.append(('rm-existing-file', path, ev[4],
                                      self.seq))
                elif op == 'truncate' and detail['size'] < fl:
                    self.hits.append(('truncate-below-floor', path, ev[4],
                                      self.seq))
        elif op == 'rename':
            dst = detail['dst']
            if path in self.protected or dst in self.protected:
                self.hits.append(('rename-protected', path, ev[4], self.seq))
            if dst in self.files:
                self.hits.append(('rename-clobber', dst, ev[4], self.seq))
        elif op == 'write':
            fl = self.floors.get(path)
            if fl is not None and detail['at'] < fl and detail['n'] > 0:
                self.hits.append(('write-below-floor', path, ev[4], self.seq))
        return ev

    def _revent(self, op, path):
        """A read-side call: numbered and logged while reads are tracked,
        failed with EIO when the read plan says so.  Has no effect on the
        store, so a crash here equals a crash at the next mutating call."""
        self.rd_calls += 1
        j = self.rd_calls
        site = _site()
        self.rlog.append([j, op, path, self.op_calls, site])
        kind = self.rplan.get(j)
        if kind is not None:
            self.fired.append((('r', j), kind, op, path, site))
            if self.double:
                self._double_armed = True
                self._double_wait = int(self.double)
            raise OSError(errno.EIO, 'injected EIO at read-side call %d (%s)'
                          % (j, op), path)

    def _fault(self, ev, can_partial=False, nbytes=0, is_close=False):
        """Apply the fault plan to this event.  Returns a byte count when a
        partial write is to be applied before ENOSPC, else None."""
        k = self.op_calls
        kind = self.plan.get(k)
        if kind is None and self._full and ev[1] in ('write', 'truncate'):
            # the device is full from the first failure on: every later write
            # fails too (opens, closes and removals still work)
            ev[3]['fault'] = 'enospc(still full)'
            self.fired.append((k, 'enospc(still full)', ev[1], ev[2], ev[4]))
            raise OSError(errno.ENOSPC, 'injected ENOSPC (device still full) '
                          'at call %d' % k, ev[2])
        if kind is None and self._double_armed:
            # the second fault: on the n-th call after the first one
            self._double_wait -= 1
            if self._double_wait > 0:
                return None
            self._double_armed = False
            kind = 'eio'
            ev[3]['fault'] = 'eio(second)'
            self.fired.append((k, 'eio(second)', ev[1], ev[2], ev[4]))
            raise OSError(errno.EIO, 'injected second EIO at call %d' % k,
                          ev[2])
        if kind is None:
            return None
        if kind == 'eio_close' and not is_close:
            return None
        ev[3]['fault'] = kind
        self.fired.append((k, kind, ev[1], ev[2], ev[4]))
        if self.double:
            self._double_armed = True
            self._double_wait = int(self.double)
        if kind == 'interrupt':
            # a cancellation delivered inside the call (KeyboardInterrupt):
            # the process lives on, nothing of this call took effect
            raise KeyboardInterrupt('injected interrupt at call %d' % k)
        if kind == 'crash':
            self.crashed = True
            raise SimCrash('injected crash at call %d (%s %s)'
                           % (k, ev[1], ev[2]))
        if kind == 'enospc_persistent':
            self._full = True
            if can_partial:
                return self.fault_rng.randrange(0, nbytes) if nbytes else 0
            raise OSError(errno.ENOSPC, 'injected ENOSPC at call %d' % k,
                          ev[2])
        if kind in ('enospc_partial', 'eio_partial'):
            # the write stores a prefix of its buffer, then fails: disk full,
            # or a transient I/O error (the errno a caller may retry on)
            if can_partial:
                return self.fault_rng.randrange(0, nbytes) if nbytes else 0
            raise OSError(errno.ENOSPC if kind == 'enospc_partial'
                          else errno.EIO, 'injected %s at call %d'
                          % (kind, k), ev[2])
        raise OSError(errno.EIO, 'injected EIO at call %d' % k, ev[2])

    def begin_op(self, plan=None, double=False, fault_rng=None, rplan=None,
                 track_reads=False):
        """Start counting mutating calls for one operation; arm faults."""
        self.op_calls = 0
        self.rd_calls = 0
        self.rlog = []
        self.rplan = {int(k): v for k, v in (rplan or {}).items()}
        self.track_reads = bool(track_reads or self.rplan)
        self.plan = dict(plan or {})
        self._full = False
        self.double = double
        self._double_armed = False
        self.fault_rng = fault_rng
        self.fired = []

    def end_op(self):
        self.plan = {}
        self._full = False
        self.rplan = {}
        self.track_reads = False
        self.double = False
        self._double_armed = False

    # ---------------------------------------------------------------- journal
    def sync_point(self):
        """Everything on 'disk' now is durable."""
        self.j_created, self.j_orig, self.j_ops = {}, {}, {}
        self.j_dirs = set()
        self.closed_ok = set()

    def _journal_touch(self, path, existed):
        if path in self.j_created or path in self.j_orig:
            return
        if existed:
            self.j_orig[path] = bytes(self.files[path])
        else:
            self.j_created[path] = True
        self.j_ops[path] = []

    def _journal_write(self, path, off, b):
        self.j_ops.setdefault(path, []).append(('w', off, bytes(b)))

    def _journal_trunc(self, path, size):
        self.j_ops.setdefault(path, []).append(('t', size))

    def resolve_crash(self, rng, mode=None):
        """Decide what a restarted process finds; clears the crashed flag.

        objstore: a file whose close succeeded is complete, otherwise absent
        (an overwritten object keeps its old content).
        posix (no fsync anywhere in fastparquet): every file touched since the
        sync point independently becomes {absent|old, empty, prefix of the
        write sequence, complete}; in-place edits get a subset of their writes.
        Returns a list describing the outcome per touched file.
        """
        out = []
        touched = sorted(set(self.j_created) | set(self.j_orig))
        for path in touched:
            ops = self.j_ops.get(path, [])
            created = path in self.j_created
            if self.profile == 'objstore':
                continue
            choice = mode or rng.choice(('gone', 'empty', 'prefix', 'torn',
                                         'complete'))
            if path not in self.files and choice != 'gone':
                # removed later during the op; keep removed
                out.append((path, 'removed'))
                continue
            if choice == 'gone':
                if created:
                    self.files.pop(path, None)
                else:
                    self.files[path] = bytearray(self.j_orig[path])
                out.append((path, 'gone' if created else 'old'))
            elif choice == 'empty' and created:
                self.files[path] = bytearray()
                out.append((path, 'empty'))
            elif choice in ('prefix', 'empty'):
                base = bytearray() if created else bytearray(self.j_orig[path])
                nops = rng.randrange(0, len(ops) + 1)
                for op in ops[:nops]:
                    _replay_op(base, op)
                if nops < len(ops) and ops[nops][0] == 'w':
                    o = ops[nops]
                    cut = rng.randrange(0, len(o[2]) + 1)
                    _replay_op(base, ('w', o[1], o[2][:cut]))
                self.files[path] = base
                out.append((path, 'prefix:%d/%d' % (nops, len(ops))))
            elif choice == 'torn':
                base = bytearray() if created else bytearray(self.j_orig[path])
                kept = 0
                for op in ops:
                    if rng.random() < 0.5:
                        _replay_op(base, op)
                        kept += 1
                self.files[path] = base
                out.append((path, 'torn:%d/%d' % (kept, len(ops))))
            else:
                out.append((path, 'complete'))
        if self.profile == 'objstore':
            # buffered handles never reached the store; nothing else to do
            for path in touched:
                out.append((path, 'objstore'))
        for d in sorted(self.j_dirs):
            if (mode == 'gone' or (mode is None and rng.random() < 0.3)):
                pre = d + '/'
                if not any(p.startswith(pre) for p in self.files) and \
                        not any(x.startswith(pre) for x in self.dirs):
                    self.dirs.discard(d)
                    out.append((d, 'dir-gone'))
        self.crashed = False
        self.open_handles = set()
        self.end_op()
        self.sync_point()
        return out

    # ------------------------------------------------------------- fs protocol
    def _open(self, path, mode='rb', **kw):
        return self.open(path, mode, **kw)

    def open(self, path, mode='rb', **kw):
        path = self._strip_protocol(path)
        self._alive()
        if mode in ('rb', 'r'):
            if path not in self.files:
                raise FileNotFoundError(errno.ENOENT, 'No such file', path)
            self.reads += 1
            if self.io_hook is not None:
                self.io_hook('open:rb', path)
            if self.track_reads:
                self._revent('open:rb', path)
            return SimReadFile(self, path, bytes(self.files[path]))
        ev = self._event('open:' + mode, path)
        self._fault(ev)
        existed = path in self.files
        if 'w' not in mode and 'a' not in mode and not existed:
            raise FileNotFoundError(errno.ENOENT, 'No such file', path)
        if path in self.dirs:
            raise IsADirectoryError(errno.EISDIR, 'Is a directory', path)
        if self._parent(path) not in self.dirs:
            raise FileNotFoundError(errno.ENOENT, 'No such directory',
                                    self._parent(path))
        if self.profile == 'objstore':
            if 'w' not in mode:
                raise OSError(errno.ENOTSUP, 'object store: mode %s' % mode)
            self._journal_touch(path, existed)
        else:
            self._journal_touch(path, existed)
            if 'w' in mode:
                self.files[path] = bytearray()
                if existed:
                    self._journal_trunc(path, 0)
            elif not existed:
                self.files[path] = bytearray()
        h = SimFile(self, path, mode)
        self.open_handles.add(h)
        return h

    def builtin_open(self, path, mode='r', *a, **kw):
        """Stand-in for the builtin ``open`` (binary modes only)."""
        if 'b' not in mode:
            raise ValueError('SimFS.builtin_open: binary modes only')
        return self.open(path, mode)

    def mkdirs(self, path, exist_ok=True):
        path = self._strip_protocol(path)
        ev = self._event('mkdirs', path)
        self._fault(ev)
        if path in self.files:
            raise FileExistsError(errno.EEXIST, 'File exists', path)
        if path in self.dirs and not exist_ok:
            raise FileExistsError(errno.EEXIST, 'File exists', path)
        parts = path.split('/')
        for i in range(1, len(parts) + 1):
            d = '/'.join(parts[:i])
            if d not in self.dirs:
                self.dirs.add(d)
                self.j_dirs.add(d)

    makedirs = mkdirs

    def mkdir(self, path, create_parents=True, **kw):
        self.mkdirs(path, exist_ok=True)

    def info(self, path, **kw):
        path = self._strip_protocol(path)
        self._alive()
        if self.track_reads:
            self._revent('info', path)
        return self._info(path)

    def _mtime(self, path):
        # logical clock: sequence number of the last event on the path
        return float(self.mtimes.get(path, 0))

    def _info(self, path):
        if path in self.files:
            return {'name': path, 'size': len(self.files[path]),
                    'type': 'file', 'mtime': self._mtime(path),
                    'created': self._mtime(path)}
        if path in self.dirs:
            return {'name': path, 'size': 0, 'type': 'directory'}
        raise FileNotFoundError(errno.ENOENT, 'No such file', path)

    def ls(self, path, detail=True, **kw):
        path = self._strip_protocol(path)
        self._alive()
        if self.track_reads:
            self._revent('ls', path)
        if path in self.files:
            out = [self._info(path)]
        elif path in self.dirs:
            pre = path + '/' if path else ''
            names = [p for p in set(self.files) | self.dirs
                     if p and p != path and p.startswith(pre)
                     and '/' not in p[len(pre):]]
            out = [self._info(p) for p in sorted(names)]
        else:
            raise FileNotFoundError(errno.ENOENT, 'No such file', path)
        return out if detail else [o['name'] for o in out]

    def rm(self, path, recursive=False, maxdepth=None):
        paths = [path] if isinstance(path, str) else list(path)
        for p in paths:
            p = self._strip_protocol(p)
            if p in self.dirs and p not in self.files:
                # a directory (LocalFileSystem semantics): only recursively,
                # file by file - each removal an event of its own, seen by
                # the monitors and the fault plan - then the directories
                if not recursive:
                    raise IsADirectoryError(errno.EISDIR, 'Is a directory', p)
                pre = p + '/'
                for f in sorted(x for x in self.files if x.startswith(pre)):
                    self.rm_file(f)
                self.rmdir(p, _tree=True)
            else:
                self.rm_file(p)

    def rmdir(self, path, _tree=False):
        path = self._strip_protocol(path)
        ev = self._event('rmdir', path)
        self._fault(ev)
        if path not in self.dirs:
            raise FileNotFoundError(errno.ENOENT, 'No such directory', path)
        pre = path + '/'
        if any(x.startswith(pre) for x in self.files) or \
                (not _tree and any(d.startswith(pre) for d in self.dirs)):
            raise OSError(errno.ENOTEMPTY, 'Directory not empty', path)
        self.dirs = {d for d in self.dirs
                     if d != path and not d.startswith(pre)}

    def rm_file(self, path):
        path = self._strip_protocol(path)
        ev = self._event('rm', path)
        self._fault(ev)
        if path not in self.files:
            raise FileNotFoundError(errno.ENOENT, 'No such file', path)
        del self.files[path]

    def _rm(self, path):
        self.rm_file(path)

    def mv(self, path1, path2, **kw):
        a, b = self._strip_protocol(path1), self._strip_protocol(path2)
        ev = self._event('rename', a, dst=b)
        self._fault(ev)
        if a not in self.files:
            raise FileNotFoundError(errno.ENOENT, 'No such file', a)
        if self._parent(b) not in self.dirs:
            raise FileNotFoundError(errno.ENOENT, 'No such directory',
                                    self._parent(b))
        if b in self.files and self.strict_rename:
            raise FileExistsError(errno.EEXIST, 'File exists', b)
        self.files[b] = self.files.pop(a)

    rename = mv

    def cat_file(self, path, start=None, end=None, **kw):
        path = self._strip_protocol(path)
        self._alive()
        if path not in self.files:
            raise FileNotFoundError(errno.ENOENT, 'No such file', path)
        self.reads += 1
        if self.io_hook is not None:
            self.io_hook('cat', path)
        if self.track_reads:
            self._revent('cat', path)
        return bytes(self.files[path][slice(start, end)])

    # ------------------------------------------------------------------ views
    def snapshot(self):
        return ({p: bytes(b) for p, b in self.files.items()}, set(self.dirs))

    def restore(self, snap):
        self.files = {p: bytearray(b) for p, b in snap[0].items()}
        self.dirs = set(snap[1])

    def digest(self):
        h = hashlib.blake2b(digest_size=8)
        for ev in self.log:
            h.update(repr((ev[0], ev[1], ev[2], sorted(ev[3].items()),
                           ev[4])).encode())
        return h.hexdigest()

    def state_digest(self):
        h = hashlib.blake2b(digest_size=8)
        for p in sorted(self.files):
            h.update(p.encode() + b'\0' + bytes(self.files[p]) + b'\1')
        for d in sorted(self.dirs):
            h.update(d.encode() + b'\2')
        return h.hexdigest()

    def trace(self, since=0):
        """Compact, JSON-able view of the event log."""
        return [[e[0], e[1], e[2], e[3], e[4]] for e in self.log
                if e[0] > since]


def _replay_op(base, op):
    if op[0] == 'w':
        off, b = op[1], op[2]
        if off > len(base):
            base.extend(b'\0' * (off - len(base)))
        base[off:off + len(b)] = b
    else:
        size = op[1]
        if size < len(base):
            del base[size:]
        else:
            base.extend(b'\0' * (size - len(base)))
