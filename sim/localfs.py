"""LocalFS - a *real* scratch directory driven through the library's default
open / mkdirs / remove callables.

Everything the claimed properties need a fault or a monitor for runs on SimFS.
A slice of the history runs is repeated here because code that only takes
effect on the default local path (``open_with is default_open``, ``os.*``
calls, fsspec's LocalFileSystem) is invisible to a caller-supplied filesystem.
No faults, no monitors: content and consistency oracles only.  Single-threaded,
one private directory per run (tmpfs when available), removed afterwards.
"""
import hashlib
import os
import shutil
import tempfile


class LocalFS:
    use_defaults = True
    profile = 'local'

    def __init__(self):
        base = '/dev/shm' if os.path.isdir('/dev/shm') and \
            os.access('/dev/shm', os.W_OK) else None
        self.root = tempfile.mkdtemp(prefix='verif-local-', dir=base)
        self.hits = []
        self.log = []
        self.seq = 0
        self.protected = set()
        self.floors = {}
        self.fired = []
        self.crashed = False
        self.io_hook = None

    # no-op fault/monitor interface
    def begin_op(self, *a, **k):
        pass

    def end_op(self):
        pass

    def sync_point(self):
        pass

    @property
    def files(self):
        out = {}
        for dp, _, fn in os.walk(self.root):
            for f in fn:
                p = os.path.join(dp, f)
                with open(p, 'rb') as fh:
                    out[p] = fh.read()
        return out

    @property
    def dirs(self):
        return {dp for dp, _, _ in os.walk(self.root)}

    def snapshot(self):
        return (self.files, self.dirs)

    def state_digest(self):
        h = hashlib.blake2b(digest_size=8)
        for p, b in sorted(self.files.items()):
            h.update(p[len(self.root):].encode() + b'\0' + b + b'\1')
        return h.hexdigest()

    def digest(self):
        return 'local'

    def cleanup(self):
        shutil.rmtree(self.root, ignore_errors=True)
