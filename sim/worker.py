"""Worker interpreter: executes one block of run indices of one check.

Started by sim/runner.py as  `python /verif/sim/worker.py`  with the job as one
JSON document on stdin, PYTHONHASHSEED and PYTHONPATH (shadow package) already
set.  Emits one '@@'-prefixed JSON line per run on stdout.
"""
import faulthandler
import gc
import importlib
import json
import os
import sys
import time
import traceback
import warnings

ROOT = os.path.dirname(os.path.dirname(os.path.abspath(__file__)))
if ROOT not in sys.path:
    sys.path.insert(0, ROOT)


_OUT = None


def _claim_stdout():
    """Results go to the pipe the parent reads; whatever the library itself
    prints (the C thrift reader reports every corrupt field on stdout, which
    is gigabytes for a damaged footer) goes to /dev/null."""
    global _OUT
    if _OUT is None:
        sys.stdout.flush()
        _OUT = os.fdopen(os.dup(1), 'w')
        dn = os.open(os.devnull, os.O_WRONLY)
        os.dup2(dn, 1)
        os.close(dn)


def emit(obj):
    _claim_stdout()
    _OUT.write('@@' + json.dumps(obj, default=str) + '\n')
    _OUT.flush()


def load(check):
    return importlib.import_module('checks.' + check.lower())


def run_case(mod, case):
    """Execute one case; classify harness errors apart from verdicts."""
    gc.collect()
    gc.disable()
    t0 = time.perf_counter()
    try:
        res = mod.execute(case)
    except BaseException as e:      # harness bug, never a property verdict
        res = {'verdict': 'harness-error',
               'error': ''.join(traceback.format_exception(e))[-4000:]}
    finally:
        gc.enable()
    res['wall'] = time.perf_counter() - t0
    return res


def main():
    warnings.simplefilter('ignore')
    job = json.load(sys.stdin)
    _claim_stdout()
    faulthandler.enable()
    mod = load(job['check'])
    kind = job.get('kind', 'block')
    if kind == 'block':
        if job.get('isolate'):
            os.environ['VERIF_ISOLATE'] = '1'
        for idx in job['indices']:
            faulthandler.dump_traceback_later(job.get('run_timeout', 600),
                                              exit=True)
            try:
                case = mod.generate(job['seed'], idx, job['tier'])
                case['hashseed'] = int(os.environ.get('PYTHONHASHSEED', 0))
            except BaseException as e:
                emit({'idx': idx, 'verdict': 'harness-error',
                      'error': ''.join(traceback.format_exception(e))[-4000:]})
                continue
            res = run_case(mod, case)
            res['idx'] = idx
            if res['verdict'] != 'ok' or job.get('want_case'):
                res.setdefault('case', case)
            emit(res)
        faulthandler.cancel_dump_traceback_later()
    elif kind == 'replay':
        os.environ['VERIF_ISOLATE'] = '1'
        faulthandler.dump_traceback_later(job.get('run_timeout', 600),
                                          exit=True)
        case = job['case']
        if 'sequence' in case:
            # state carried from one run to the next inside a worker (a
            # module-level cache in the library): re-execute the runs of the
            # block that preceded the failing one, then the failing one
            sq = case['sequence']
            for i in sq['indices'][:-1]:
                run_case(mod, mod.generate(sq['seed'], i, sq['tier']))
            last = mod.generate(sq['seed'], sq['indices'][-1], sq['tier'])
            res = run_case(mod, last)
        else:
            res = run_case(mod, case)
        emit(res)
    elif kind == 'shrink':
        os.environ['VERIF_ISOLATE'] = '1'
        from sim import shrink
        faulthandler.dump_traceback_later(job.get('run_timeout', 1800),
                                          exit=True)
        out = shrink.minimise(mod, job['case'], job['class_key'],
                              budget=job.get('budget', 400))
        emit(out)
    emit({'done': True})


if __name__ == '__main__':
    main()
