#!/venv/bin/python
"""Run every kept seeded change (seeded/<ID>/patch.diff, or
patch_on_fixed_tree.diff where a fix: commit touched the same lines) against
the quick check of its property in a scratch copy, and record in meta.json
which check caught it.  Nothing is applied to /repo.

  tools/seeded.py [ID ...]
"""
import json
import os
import subprocess
import sys
import time

ROOT = os.path.dirname(os.path.dirname(os.path.abspath(__file__)))
sys.path.insert(0, os.path.join(ROOT, 'tools'))
import mutants  # noqa: E402


def main(argv):
    base = os.path.join(ROOT, 'seeded')
    ids = argv or sorted(os.listdir(base))
    rc_all = 0
    for sid in ids:
        d = os.path.join(base, sid)
        meta = json.load(open(os.path.join(d, 'meta.json')))
        prop = meta['property']
        diff = os.path.join(d, 'patch_on_fixed_tree.diff')
        if not os.path.exists(diff):
            diff = os.path.join(d, 'patch.diff')
        sc = mutants.scratch()
        try:
            p = subprocess.run(['patch', '-p1', '-s', '-d', sc, '-i', diff],
                               capture_output=True, text=True)
            if p.returncode != 0:
                print('%-8s patch does not apply: %s' % (sid, p.stdout[:200]))
                rc_all = 2
                continue
            rc, wall, out = mutants.run_check(sc, prop)
            classes = [l.strip().split()[0].replace('class=', '')
                       for l in out.splitlines() if l.startswith('  class=')]
            meta['detected_by'] = {
                'check': './verif check %s --tier quick' % prop,
                'exit': rc, 'wall_s': round(wall, 1),
                'violation_classes': classes[:6],
                'patch_used': os.path.basename(diff),
                'tree': subprocess.check_output(
                    ['git', '-C', '/repo', 'log', '-1', '--format=%h']
                ).decode().strip(),
            }
            json.dump(meta, open(os.path.join(d, 'meta.json'), 'w'),
                      indent=1)
            print('%-8s exit=%d %6.1fs %s %s' % (
                sid, rc, wall, 'CAUGHT' if rc == 1 else 'MISSED',
                classes[:2]), flush=True)
            if rc != 1:
                rc_all = 1
        finally:
            mutants.cleanup(sc)
    return rc_all


if __name__ == '__main__':
    sys.exit(main(sys.argv[1:]))
