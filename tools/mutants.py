#!/venv/bin/python
"""Sensitivity harness: apply a deliberate breakage to a scratch copy of
/repo/fastparquet, run a check against it, expect exit 1, clean up.

  tools/mutants.py run C19            all mutants of mutants/C19.json
  tools/mutants.py run C19 name ...   selected ones
  tools/mutants.py patch <file.diff> C19 [C07 ...]   a git-style patch instead

Mutant spec (mutants/<PROP>.json): [{name, file, old, new, note}], applied by
exact string replacement (must match exactly once).  Nothing is ever written
to /repo; scratch copies live under a fresh mkdtemp and are removed.
"""
import json
import os
import shutil
import subprocess
import sys
import tempfile
import time

ROOT = os.path.dirname(os.path.dirname(os.path.abspath(__file__)))
REPO = '/repo'


def scratch():
    d = tempfile.mkdtemp(prefix='verif-mut-')
    shutil.copytree(os.path.join(REPO, 'fastparquet'),
                    os.path.join(d, 'fastparquet'),
                    ignore=shutil.ignore_patterns('test', 'benchmarks',
                                                  '__pycache__', '*.so'))
    return d


_SNAP = []


def verif_snapshot():
    """A private copy of the machinery as it is now, so that editing /verif
    while a sensitivity run is in progress cannot change what that run
    executes.  Removed at exit."""
    if not _SNAP:
        import atexit
        d = tempfile.mkdtemp(prefix='verif-snap-')
        for name in ('sim', 'checks', 'verif', 'known_findings.json'):
            src = os.path.join(ROOT, name)
            if os.path.isdir(src):
                shutil.copytree(src, os.path.join(d, name),
                                ignore=shutil.ignore_patterns('__pycache__'))
            else:
                shutil.copy2(src, os.path.join(d, name))
        atexit.register(shutil.rmtree, d, True)
        _SNAP.append(d)
    return _SNAP[0]


def run_check(d, prop, tier='quick'):
    # (sensitivity runs only ask whether a violation is reported: the
    # minimisation of what was found is skipped)
    env = dict(os.environ, VERIF_REPO=d, VERIF_OUT=os.path.join(d, 'out'),
               VERIF_NO_SHRINK='1')
    t0 = time.time()
    p = subprocess.run([os.path.join(verif_snapshot(), 'verif'), 'check',
                        prop, '--tier', tier], env=env, capture_output=True,
                       text=True)
    return p.returncode, time.time() - t0, p.stdout


def cleanup(d):
    shutil.rmtree(d, ignore_errors=True)
    b = os.path.join(ROOT, '.build')
    for other in os.listdir(b) if os.path.isdir(b) else []:
        try:
            with open(os.path.join(b, other, '.repo')) as f:
                if f.read() == os.path.realpath(d):
                    shutil.rmtree(os.path.join(b, other), ignore_errors=True)
        except OSError:
            pass


def _record(prop, name, rc, wall, viol, exp):
    p = os.path.join(ROOT, 'mutants', 'results.json')
    try:
        res = json.load(open(p))
    except (OSError, ValueError):
        res = {}
    res['%s/%s' % (prop, name)] = {
        'exit': rc, 'wall_s': round(wall, 1), 'expected': exp,
        'classes': [l.strip().split()[0].replace('class=', '')
                    for l in viol if l.startswith('  class=')],
        'tree': subprocess.check_output(
            ['git', '-C', REPO, 'log', '-1', '--format=%h']).decode().strip()}
    json.dump(res, open(p, 'w'), indent=1, sort_keys=True)


def main(argv):
    if argv[0] == 'run':
        prop = argv[1]
        with open(os.path.join(ROOT, 'mutants', prop + '.json')) as f:
            muts = json.load(f)
        want = set(argv[2:])
        tier = os.environ.get('MUT_TIER', 'quick')
        rc_all = 0
        for m in muts:
            if want and m['name'] not in want:
                continue
            d = scratch()
            try:
                p = os.path.join(d, 'fastparquet', m['file'])
                s = open(p).read()
                if s.count(m['old']) != 1:
                    print('%-28s SKIP: pattern matches %d times'
                          % (m['name'], s.count(m['old'])))
                    rc_all = 2
                    continue
                open(p, 'w').write(s.replace(m['old'], m['new']))
                rc, wall, out = run_check(d, prop, tier)
                viol = [l for l in out.splitlines()
                        if l.startswith(('VIOLATION', '  class='))][:2]
                exp = m.get('expect', 'caught')
                print('%-28s exit=%d %5.1fs %s%s' % (
                    m['name'], rc, wall,
                    'CAUGHT' if rc == 1 else 'MISSED' if rc == 0 else
                    'HARNESS-ERROR',
                    ' (equivalent mutant: expected)' if exp == 'missed'
                    and rc == 0 else ''), flush=True)
                for l in viol:
                    print('      ' + l[:230])
                _record(prop, m['name'], rc, wall, viol, exp)
                if (rc != 1 and exp == 'caught') or (exp == 'missed'
                                                      and rc != 0):
                    rc_all = 1
                    print(out[-1500:])
            finally:
                cleanup(d)
        return rc_all
    if argv[0] == 'patch':
        diff, props = argv[1], argv[2:]
        d = scratch()
        try:
            subprocess.run(['patch', '-p1', '-s', '-d', d, '-i',
                            os.path.abspath(diff)], check=True)
            rc_all = 0
            for prop in props:
                rc, wall, out = run_check(d, prop,
                                          os.environ.get('MUT_TIER', 'quick'))
                print('%s on %s: exit=%d %.1fs' % (os.path.basename(diff),
                                                   prop, rc, wall))
                for l in out.splitlines():
                    if l.startswith(('VIOLATION', '  class=', 'KNOWN',
                                     'HARNESS')):
                        print('      ' + l[:260])
                print('      ' + out.strip().splitlines()[-1])
        finally:
            cleanup(d)
        return 0
    print(__doc__)
    return 2


if __name__ == '__main__':
    sys.exit(main(sys.argv[1:]))
