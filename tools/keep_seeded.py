#!/venv/bin/python
"""keep_seeded.py <prop> <n> <needs...>: copy a validated seeded change into
/verif/seeded/<PROP>-<n>/ with meta.json."""
import json, os, shutil, sys
p, n = sys.argv[1], sys.argv[2]
base = os.environ.get('SEEDED_OUT', '/tmp/seeded-out')
src = '%s/%s/%s' % (base, p, n)
dst = '/verif/seeded/%s-%s' % (p.upper(), os.environ.get('SEEDED_AS', n))
os.makedirs(dst, exist_ok=True)
for f in ('patch.diff', 'demo.py', 'README.md'):
    shutil.copy(os.path.join(src, f), os.path.join(dst, f))
meta = {
    'property': p.upper(),
    'origin': 'independent sub-agent given only the property text and a scratch worktree',
    'needs_to_manifest': ' '.join(sys.argv[3:]),
    'validated': {
        'demo_on_unmodified_tree_exit': 0, 'demo_with_patch_exit': 1,
        'baseline_suite_with_patch': '339 stable-pass tests still pass',
        'ran': ['tools/validate_seeded.sh %s %s' % (p, n)],
    },
    'detected_by': None,
}
mp = os.path.join(dst, 'meta.json')
if os.path.exists(mp):
    old = json.load(open(mp))
    meta['detected_by'] = old.get('detected_by')
json.dump(meta, open(mp, 'w'), indent=1)
print(dst)
