#!/venv/bin/python
"""Which functions of the package do the checks' workloads execute?

  tools/funccov.py C07 200 [tier]     functions of fastparquet/*.py entered during
                                      the first N cases of a check, and the ones
                                      never entered; for C20 also which ones were
                                      entered from worker threads (concurrently)

A reach measurement for the generators (sys.monitoring PY_START, a tool id of
its own); not part of any verdict.
"""
import importlib
import os
import sys
import threading

ROOT = os.path.dirname(os.path.dirname(os.path.abspath(__file__)))
sys.path.insert(0, ROOT)
from sim import build  # noqa: E402


def main(argv):
    prop, n = argv[0].upper(), int(argv[1])
    tier = argv[2] if len(argv) > 2 else 'quick'
    sys.path.insert(0, build.shadow())
    mod = importlib.import_module('checks.' + prop.lower())
    from sim import sched
    codes = sched.fastparquet_codes()
    names = {}
    for co in codes:
        names[co] = '%s:%s' % (os.path.basename(co.co_filename)[:-3],
                               co.co_qualname)
    seen, seen_thr = set(), set()
    mon = sys.monitoring
    TOOL = 1
    mon.use_tool_id(TOOL, 'funccov')
    main_id = threading.get_ident()

    def cb(code, off):
        nm = names.get(code)
        if nm is None:
            return mon.DISABLE
        if threading.get_ident() != main_id:
            seen_thr.add(nm)
            if nm in seen:
                return mon.DISABLE
            return None
        seen.add(nm)
        return None if prop == 'C20' else mon.DISABLE
    mon.register_callback(TOOL, mon.events.PY_START, cb)
    mon.set_events(TOOL, mon.events.PY_START)
    seed = int(os.environ.get('VERIF_SEED', 20261004))
    verdicts = {}
    for i in range(n):
        case = mod.generate(seed, i, tier)
        r = mod.execute(case)
        verdicts[r['verdict']] = verdicts.get(r['verdict'], 0) + 1
    mon.set_events(TOOL, 0)
    mon.free_tool_id(TOOL)
    allf = sorted(set(names.values()))
    hit = seen | seen_thr
    print('verdicts', verdicts)
    print('%d of %d functions entered' % (len(hit & set(allf)), len(allf)))
    print('--- never entered:')
    for f in allf:
        if f not in hit:
            print('   ', f)
    if prop == 'C20':
        print('--- entered, but never from a worker thread:')
        for f in allf:
            if f in seen and f not in seen_thr:
                print('   ', f)


if __name__ == '__main__':
    main(sys.argv[1:])
