#!/bin/sh
# usage: check_baseline.sh <worktree>  -> exit 0 iff every baseline-passing test still passes
wt="$1"; cd "$wt" || exit 2
out=$(mktemp /tmp/junit-XXXX.xml)
/venv/bin/python -m pytest -q -p no:cacheprovider --timeout=900 -q -n 8 --junitxml=$out >/dev/null 2>&1
/venv/bin/python - "$out" <<'PY'
import sys, xml.etree.ElementTree as ET
sp = set(open('/tmp/stable_pass.txt').read().split('\n'))
passed=set()
for tc in ET.parse(sys.argv[1]).iter('testcase'):
    if not any(c.tag in ('failure','error','skipped') for c in tc):
        passed.add(tc.get('classname')+'::'+tc.get('name'))
missing = sorted(sp-passed)
print('baseline tests now failing: %d' % len(missing))
for m in missing[:20]: print('  ', m)
sys.exit(1 if missing else 0)
PY
rc=$?; rm -f $out; exit $rc
