#!/venv/bin/python
"""Design-time scan of the C18 lattice on the current tree: which candidate
cells does today's library accept (no exception)?  Writes
checks/c18_accepted.json (only with --write) and prints a summary per cell
outcome.  Cells accepted today are not rejections and are dropped from the
lattice; this file is reviewed by hand and committed, never written by a
check."""
import collections
import json
import os
import sys
import warnings
sys.path.insert(0, os.path.dirname(os.path.dirname(os.path.abspath(__file__))))
warnings.simplefilter('ignore')
from checks import c18  # noqa: E402
from sim import frames as F  # noqa: E402

c18._CELLS = c18.all_cells()         # scan all candidates
out = collections.OrderedDict()
for cell in c18.all_cells():
    for nrg, newrows in ((1, 12), (3, 150), (12, 400)):
        case = {'prop': 'C18', 'seed': 1, 'idx': 1, 'tier': 'quick',
                'knobs': {'page': None, 'v2': False}, 'vseed': 7,
                'codec': None, 'newcodec': None, 'state': cell['state'],
                'nrg': nrg, 'newrows': newrows,
                'steps': [{'cell': cell['id']}]}
        r = c18.execute(case)
        keys = [v['class_key'].split(':')[0] for v in r['violations']]
        out.setdefault(cell['id'], []).append(
            'ok' if r['verdict'] == 'ok' else ','.join(sorted(set(keys)))
            or r['verdict'])
acc = [cid for cid, o in out.items()
       if any('returned-normally' in x for x in o)]
summary = collections.Counter()
for cid, o in out.items():
    summary[(cid.split('/')[1], cid.split('/')[2], tuple(o))] += 1
for k, v in sorted(summary.items(), key=str):
    print(v, k)
print('cells', len(out), 'accepted', len(acc))
if '--write' in sys.argv:
    with open(os.path.join(os.path.dirname(c18.__file__),
                           'c18_accepted.json'), 'w') as f:
        json.dump({'comment': 'candidate cells whose input the library '
                   'accepts on the pinned tree (operation returns normally): '
                   'not rejections, not part of the lattice. Produced by '
                   'tools/c18_scan.py --write at design time.',
                   'accepted': acc}, f, indent=1)
