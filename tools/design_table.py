#!/venv/bin/python
"""Regenerate the tables of DESIGN.md section 10 from seeded/*/meta.json and
mutants/*.json + mutants/results.json (between the BEGIN/END markers)."""
import json
import os
import re

ROOT = os.path.dirname(os.path.dirname(os.path.abspath(__file__)))


def seeded_table():
    rows = ['| id | needs, in order to manifest | caught by | first violation classes |',
            '|----|-----------------------------|-----------|-------------------------|']
    base = os.path.join(ROOT, 'seeded')
    for sid in sorted(os.listdir(base), key=lambda s: (s.split('-')[0], int(s.split('-')[1]))):
        m = json.load(open(os.path.join(base, sid, 'meta.json')))
        d = m.get('detected_by') or {}
        res = ('`%s` exit %s in %ss' % (d.get('check', '?').replace('./verif ', ''), d.get('exit'), d.get('wall_s'))
               if d else 'not run')
        if d and d.get('exit') != 1:
            res = '**MISSED** ' + res
        if d.get('patch_used', 'patch.diff') != 'patch.diff':
            res += ' (rebased patch)'
        if m.get('note'):
            res += ' - ' + m['note']
        rows.append('| %s | %s | %s | %s |' % (
            sid, m['needs_to_manifest'].replace('|', '/'), res,
            ', '.join('`%s`' % c for c in d.get('violation_classes', [])[:2])))
    return '\n'.join(rows)


def own_table():
    res = {}
    p = os.path.join(ROOT, 'mutants', 'results.json')
    if os.path.exists(p):
        res = json.load(open(p))
    rows = ['| check | mutant | what it does | result |',
            '|-------|--------|--------------|--------|']
    for f in sorted(os.listdir(os.path.join(ROOT, 'mutants'))):
        if not re.match(r'C\d+\.json$', f):
            continue
        prop = f[:-5]
        for m in json.load(open(os.path.join(ROOT, 'mutants', f))):
            r = res.get('%s/%s' % (prop, m['name']))
            if r is None:
                out = 'not run'
            elif r['exit'] == 1:
                out = 'caught (%ss): %s' % (r['wall_s'], ', '.join('`%s`' % c for c in r['classes'][:1]))
            elif r['exit'] == 0:
                out = 'missed' + (' - expected, equivalent mutant' if m.get('expect') == 'missed' else ' **(gap)**')
            else:
                out = 'harness error'
            rows.append('| %s | %s | %s | %s |' % (prop, m['name'], m['note'].replace('|', '/'), out))
    return '\n'.join(rows)


def main():
    p = os.path.join(ROOT, 'DESIGN.md')
    s = open(p).read()
    for tag, fn in (('SEEDED', seeded_table), ('OWN', own_table)):
        a, b = '<!-- BEGIN-%s -->' % tag, '<!-- END-%s -->' % tag
        if a in s:
            s = s[:s.index(a) + len(a)] + '\n' + fn() + '\n' + s[s.index(b):]
    open(p, 'w').write(s)


if __name__ == '__main__':
    main()
