#!/bin/sh
# usage: validate_seeded.sh <prop lower, e.g. c19> <n>
# Confirms in the scratch worktree /tmp/wt-<prop>: demo passes on the clean tree,
# fails with the patch, patched tree still passes the baseline suite. Then
# reverts the worktree.  Prints one summary line.
p="$1"; n="$2"; wt=/tmp/wt-$p; d=${SEEDED_OUT:-/tmp/seeded-out}/$p/$n
git -C $wt checkout -q -- . ; git -C $wt status --short | grep -v '^??' | head -3
(cd $wt && timeout 600 /venv/bin/python $d/demo.py >/tmp/val-clean.out 2>&1); a=$?
git -C $wt apply $d/patch.diff || { echo "$p/$n: patch does not apply"; exit 2; }
(cd $wt && timeout 600 /venv/bin/python $d/demo.py >/tmp/val-patched.out 2>&1); b=$?
/tmp/check_baseline.sh $wt >/tmp/val-base.out 2>&1; c=$?
git -C $wt checkout -q -- .
echo "$p/$n: demo clean=$a patched=$b baseline=$c  $( [ $a = 0 ] && [ $b = 1 ] && [ $c = 0 ] && echo VALID || echo INVALID )"
