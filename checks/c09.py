"""C09 - dataset edits follow a simple model; metadata and directory agree.

One run = one seeded history on a hive dataset created in an empty SimFS
directory: initial write, then 1..8 of {append, partition overwrite,
remove_row_groups(subset), write_row_groups(sort_key, sort_pnames)}, the
dataset re-opened from SimFS between any two steps.  After every step
  * content read back through a fresh handle equals a multiset model
    (overwrite replaces exactly the partitions present in the new data,
    removal deletes exactly the chosen row groups, append adds rows);
  * consistency, computed from SimFS bytes with an independent footer reader:
    every referenced file exists and holds the stated rows, no unreferenced
    part file or .tmp leftover, schemas of summary / common metadata / part
    files agree;
  * monitors at the seam: a rename never clobbers an existing file.
"""
import copy
import hashlib

from sim import dataset as D
from sim import frames as F
from sim import minithrift as M
from sim import prng
from sim.gen import gen_frame_spec, gen_has_nulls, gen_shape, gen_wopts
from sim.shrink import drop_each

PROP = 'C09'
LEVEL = 'exploration'
TIERS = {
    'quick': {'runs': 8000, 'block': 160, 'run_timeout': 120,
              'wall_cap': 900, 'det_sample': 4},
    'thorough': {'runs': 64000, 'block': 800, 'run_timeout': 120,
                 'wall_cap': 7200, 'det_sample': 8},
}
RULE = ('history = initial hive write (0-2 partition columns of six value '
        'types, sometimes >10 part files) + 1..8 ops from {append, overwrite '
        '(both entry points, sort_pnames on/off), remove_row_groups(subset, '
        'sort_pnames on/off), write_row_groups(sort_key, sort_pnames)}; '
        'evaluations = histories executed; non-trivial = at least 2 mutating '
        'steps of at least 2 kinds; distinct = distinct (partition shape, op '
        'kind/option sequence, part-number collisions seen at a renumbering)')
COMPONENTS = {
    'real': ['fastparquet *.py from /repo working tree',
             'cencoding/speedups C extensions rebuilt from /repo .c files',
             'pandas', 'numpy', 'cramjam', 'fsspec AbstractFileSystem base',
             'a 10% slice of the histories: the real local filesystem (private '
             'tmpfs directory) through the library\'s default open/mkdirs/'
             'remove - code that only acts on the default path is invisible '
             'to a caller-supplied filesystem'],
    'stub': ['filesystem -> sim.simfs.SimFS (event log, rename-clobber '
             'monitor)', 'footer reader for the consistency oracle -> '
             'sim.minithrift (independent of fastparquet)'],
}
ASSUMPTIONS = [
    'content is compared as a multiset keyed by unique row ids (row-group '
    'order after sort_key is the library\'s choice); histories of '
    'write/append only are also compared in batch order',
    'removal never removes all row groups (a dataset without row groups has '
    'lost its partition columns: precondition, not a finding)',
    'rows with a null partition key are dropped by the library (documented); '
    'the generators produce none',
]
PART_KINDS = ('pstr', 'pnum', 'pint', 'pbool', 'pfloat', 'pts', 'pcat')
COL_KINDS = ('i64', 'i32', 'f64', 'str', 'obj', 'bool', 'dt', 'cat', 'u8')
SORT_KEYS = ('nrows', 'path', 'rpath', 'offset', 'const')


def sort_key_fn(name):
    if name == 'nrows':
        return lambda rg: rg.num_rows
    if name == 'path':
        return lambda rg: rg.columns[0].file_path
    if name == 'rpath':
        return lambda rg: tuple(-ord(c) for c in rg.columns[0].file_path)
    if name == 'offset':
        return lambda rg: -rg.num_rows
    if name == 'const':
        # every row group ties: a stable sort leaves the order alone
        return lambda rg: 'k'
    return None


# ------------------------------------------------------------------ generate

def generate(seed, idx, tier):
    rng = prng.stream(seed, PROP, idx, 'scenario')
    knobs = F.gen_knobs(prng.stream(seed, PROP, idx, 'knobs'))
    shape = gen_shape(rng, max_parts=2, col_kinds=COL_KINDS,
                      part_kinds=PART_KINDS)
    nparts = len(shape['parts'])
    has_cat = any(c[1] == 'cat' for c in shape['cols'])
    # some frames carry rows without a partition key (dropped on write)
    shape['pnull'] = bool(nparts) and rng.random() < 0.3
    many = rng.random() < 0.12
    huge = not nparts and rng.random() < 0.04     # more than 32 row groups
    f0 = gen_frame_spec(rng, shape, 0, permute=False,
                        min_rows=36 if huge else 24 if many else 1)
    op = {'op': 'write', 'frame': f0}
    op.update(gen_wopts(rng, f0['nrows'], has_cat, knobs))
    if huge:
        op['rgo'] = 1
    elif many:
        op['rgo'] = rng.choice((2, 3))
    op['has_nulls'] = gen_has_nulls(rng, shape)
    ops = [op]
    batch = 0
    for _ in range(rng.randrange(1, 9)):
        batch += 1
        kinds = ['append', 'append', 'remove', 'remove', 'wrg']
        if nparts:
            kinds += ['overwrite', 'overwrite', 'overwrite']
        kind = rng.choice(kinds)
        if kind == 'remove':
            o = {'op': 'remove', 'sel': [rng.random() for _ in range(4)],
                 'frac': rng.choice((0.15, 0.34, 0.5, 0.75)),
                 'sort_pnames': rng.random() < 0.5,
                 'how': rng.choice(('list', 'single', 'list')),
                 # on the real directory: handle opened from the path of the
                 # summary file (no filesystem object on it: the library's
                 # default remove is used)
                 'via_meta_path': rng.random() < 0.5,
                 # the row groups to remove named by descriptors taken from
                 # *another* handle of the same dataset: the library may
                 # refuse that (then nothing may have changed) or carry it out
                 'foreign': rng.random() < 0.15}
        else:
            f = gen_frame_spec(rng, shape, batch)
            o = {'op': kind, 'frame': f}
            o.update(gen_wopts(rng, f['nrows'], has_cat, knobs))
            if kind in ('append', 'overwrite') and rng.random() < 0.12:
                # carried out by a different process
                o['other'] = True
            if kind == 'append':
                o['entry'] = rng.choice(('write', 'wrg'))
            elif kind == 'overwrite':
                o['entry'] = rng.choice(('write', 'func'))
                o['sort_pnames'] = True if o['entry'] == 'write' \
                    else rng.random() < 0.5
            else:
                o['sort_key'] = rng.choice(SORT_KEYS + (None,))
                o['sort_pnames'] = rng.random() < 0.6
        ops.append(o)
    p0 = next(iter(shape['parts']), None)
    if p0 and len(shape['parts'][p0][1]) >= 2 and rng.random() < 0.12:
        # template: an edit that keeps the summary's byte size between two
        # appends - write partition A, append partition B, overwrite B with
        # an equally shaped frame, append again.  State remembered across
        # operations by anything but the files themselves goes stale here.
        va, vb = shape['parts'][p0][1][:2]

        def only(frame, val):
            fr = copy.deepcopy(frame)
            for name in fr['part']:
                kind, choices, pseed = fr['part'][name][:3]
                fr['part'][name] = [kind, [val] if name == p0
                                    else choices[:1], pseed]
            return fr
        w = dict(ops[0])
        w['frame'] = only(f0, va)
        f1 = only(gen_frame_spec(rng, shape, 1), vb)
        a1 = {'op': 'append', 'frame': f1, 'entry': 'write'}
        a1.update(gen_wopts(rng, f1['nrows'], has_cat, knobs))
        twin = copy.deepcopy(f1)
        twin['batch'] = 2
        ov = {'op': 'overwrite', 'frame': twin, 'entry': 'func',
              'sort_pnames': False, 'rgo': a1.get('rgo'),
              'codec': a1.get('codec'), 'stats': a1.get('stats')}
        f3 = gen_frame_spec(rng, shape, 3)
        a3 = {'op': 'append', 'frame': f3, 'entry': 'write'}
        a3.update(gen_wopts(rng, f3['nrows'], has_cat, knobs))
        ops = [w, a1, ov, a3]
    return {'prop': PROP, 'seed': seed, 'idx': idx, 'tier': tier,
            'knobs': knobs, 'shape': shape, 'ops': ops,
            'local': rng.random() < 0.15}


# --------------------------------------------------------------- consistency

def consistency(fs, root):
    """Directory <-> summary agreement, from bytes only. -> list of problems"""
    probs = []
    files = {p: b for p, b in fs.files.items() if p.startswith(root + '/')}
    meta = files.get(root + '/_metadata')
    if meta is None:
        return ['_metadata missing']
    fm = M.footer(meta)
    if fm['problems'] or fm['fmd'] is None:
        return ['_metadata: ' + '; '.join(fm['problems'])]
    fmd = fm['fmd']
    rgs = M.row_groups(fmd)
    total = 0
    per_file = {}
    for fp, n in rgs:
        total += n or 0
        if fp is None:
            probs.append('row group without file_path in _metadata')
            continue
        per_file[root + '/' + fp] = per_file.get(root + '/' + fp, 0) + n
    if total != fmd.get(3):
        probs.append('_metadata.num_rows %r != sum of row groups %d'
                     % (fmd.get(3), total))
    sig = M.schema_sig(fmd)
    for p, n in sorted(per_file.items()):
        b = files.get(p)
        if b is None:
            probs.append('referenced file %s does not exist' % p)
            continue
        ff = M.footer(b)
        if ff['problems'] or ff['fmd'] is None:
            probs.append('%s: %s' % (p, '; '.join(ff['problems'])))
            continue
        if ff['fmd'].get(3) != n:
            probs.append('%s holds %r rows, summary says %d'
                         % (p, ff['fmd'].get(3), n))
        if M.schema_sig(ff['fmd']) != sig:
            probs.append('schema of %s differs from _metadata' % p)
    data_files = {p for p in files
                  if p.endswith(('.parquet', '.parq'))}
    for p in sorted(data_files - set(per_file)):
        probs.append('unreferenced part file %s' % p)
    for p in sorted(files):
        if p.endswith('.tmp') or '.tmp' in p.rsplit('/', 1)[1]:
            probs.append('temporary file left behind: %s' % p)
    cm = files.get(root + '/_common_metadata')
    if cm is None:
        probs.append('_common_metadata missing')
    else:
        fc = M.footer(cm)
        if fc['problems'] or fc['fmd'] is None:
            probs.append('_common_metadata: ' + '; '.join(fc['problems']))
        elif M.schema_sig(fc['fmd']) != sig:
            probs.append('schema of _common_metadata differs from _metadata')
    return probs


# ------------------------------------------------------------------- execute

def pkey(row, parts):
    return tuple(row[p] for p in parts)


def execute(case):
    D.reset_library_caches()
    res = {'verdict': 'ok', 'violations': [], 'evals': 1, 'keys': [],
           'counters': {}, 'faults': {}, 'probes': {}, 'steps': 0}
    cnt, probes = res['counters'], res['probes']

    def bump(d, k, n=1):
        d[k] = d.get(k, 0) + n

    def violation(key, msg, upto):
        c = dict(case)
        c['ops'] = case['ops'][:upto + 1]
        res['verdict'] = 'violation'
        if not any(v['class_key'] == key for v in res['violations']):
            res['violations'].append({'class_key': key, 'message': msg,
                                      'case': c})

    parts = list(case['shape']['parts'])
    pkinds = [case['shape']['parts'][p][0] for p in parts]
    fs = D.new_fs('posix', local=case.get('local', False))
    ds = D.ds_path(fs)
    try:
        return _execute(case, fs, ds, res, cnt, probes, bump, violation,
                        parts, pkinds)
    finally:
        D.cleanup(fs)


def _execute(case, fs, ds, res, cnt, probes, bump, violation, parts, pkinds):
    rows = {}            # uid -> {col: cell}   (the multiset model)
    order = []           # batches in order, while only write/append happened
    ordered = True
    trail = []
    kinds_done = set()
    collisions = 0
    writer_pf = None
    h = hashlib.blake2b(digest_size=8)

    with F.Knobs(case['knobs']), F.Poison():
        for si, op in enumerate(case['ops']):
            kind = op['op']
            fs.hits = []
            seq0 = fs.seq
            try:
                if kind == 'write':
                    df = F.build_frame(op['frame'])
                    try:
                        D.do_write(fs, ds, df, op, 'hive', parts)
                    except Exception as e:
                        res.update(verdict='discard', digest='discard',
                                   evals=0, discard='initial write refused: '
                                   '%s: %s' % (type(e).__name__, e))
                        return res
                    _add(rows, order, df, parts)
                elif kind == 'append':
                    df = F.build_frame(op['frame'])
                    if len(df) == 0:
                        continue       # refused today (C07 matter)
                    _run(fs, op, lambda: D.do_append(fs, ds, df, op, 'hive',
                                                     parts) and None, probes)
                    _add(rows, order, df, parts)
                elif kind == 'overwrite':
                    df = F.build_frame(op['frame'])
                    if len(df) == 0:
                        continue
                    kw = D.w_opts(op)
                    if op['entry'] == 'write':
                        _run(fs, op, lambda: D.write(
                            ds, df, file_scheme='hive', partition_on=parts,
                            append='overwrite', **kw, **D.io(fs)), probes)
                    else:
                        from fastparquet.writer import overwrite
                        _run(fs, op, lambda: overwrite(
                            ds, df,
                            row_group_offsets=kw.get('row_group_offsets'),
                            sort_pnames=op['sort_pnames'],
                            compression=kw.get('compression'),
                            **D.io(fs, remove=True),
                            stats=kw.get('stats', True)), probes)
                    canon = F.canon_frame(df)
                    uids, new_rows = D.by_uid(canon)
                    # rows without a partition key are not written
                    new_rows = {u: r for u, r in new_rows.items()
                                if all(r[p] is not None for p in parts)}
                    uids = [u for u in uids if u in new_rows]
                    keys = {pkey(new_rows[u], parts) for u in uids}
                    doomed = [u for u, r in rows.items()
                              if pkey(r, parts) in keys]
                    bump(probes, 'overwrite_replaced_existing_partition'
                         if doomed else 'overwrite_only_new_partitions')
                    if doomed and len(doomed) < len(rows):
                        bump(probes, 'overwrite_left_other_partitions')
                    for u in doomed:
                        del rows[u]
                    rows.update(new_rows)
                    ordered = False
                elif kind == 'wrg':
                    df = F.build_frame(op['frame'])
                    if len(df) == 0:
                        continue
                    pf = D.open_pf(ds, fs)
                    kw = D.w_opts(op)
                    if op['sort_pnames']:
                        collisions += _collisions(pf)
                    writer_pf = pf
                    pf.write_row_groups(
                        df, kw.get('row_group_offsets'),
                        sort_key=sort_key_fn(op.get('sort_key')),
                        sort_pnames=op['sort_pnames'],
                        compression=kw.get('compression'),
                        stats=kw.get('stats', 'auto'), **D.io(fs))
                    _add(rows, order, df, parts)
                    if op.get('sort_key') and op['sort_key'] != 'const':
                        ordered = False
                elif kind == 'remove':
                    if D.is_local(fs) and op.get('via_meta_path') and \
                            not op['sort_pnames']:
                        # (such a handle carries no filesystem object and
                        # cannot rename: renumbering is not asked of it)
                        pf = D.ParquetFile(ds + '/_metadata')
                        bump(probes, 'removal_through_summary_path_handle')
                    else:
                        pf = D.open_pf(ds, fs)
                    n = len(pf.row_groups)
                    if n < 2:
                        continue
                    k = max(1, min(n - 1, int(n * op['frac'])))
                    idxs = sorted({int(s * n) % n for s in op['sel']})[:k]
                    if op['how'] == 'single':
                        idxs = idxs[:1]
                    # which rows live in which row group: read each one,
                    # cross-checked against the model before it is trusted
                    per_rg = [pf[i].to_pandas(columns=['uid'])['uid'].tolist()
                              for i in range(n)]
                    flat = [u for us in per_rg for u in us]
                    if sorted(flat) != sorted(rows):
                        violation('C09/row-groups-do-not-partition-content',
                                  'step %d: uids read per row group differ '
                                  'from the model before removal' % si, si)
                        break
                    if op['sort_pnames']:
                        collisions += _collisions(pf)
                    src = pf
                    if op.get('foreign'):
                        # descriptors held by the handle that wrote row
                        # groups earlier in this history (in-memory ones,
                        # possibly outdated by now), else by a second fresh
                        # handle
                        src = writer_pf or D.open_pf(ds, fs)
                        idxs = [i for i in idxs if i < len(src.row_groups)]
                        if not idxs:
                            continue
                    target = [src.row_groups[i] for i in idxs]
                    if op.get('foreign'):
                        # what they denote in the dataset as it is now
                        idxs = [j for j, rg in enumerate(pf.row_groups)
                                if any(rg == t for t in target)]
                    try:
                        pf.remove_row_groups(
                            target[0] if op['how'] == 'single' else target,
                            sort_pnames=op['sort_pnames'],
                            **({} if D.is_local(fs) else
                               {'open_with': fs.open, 'remove_with': fs.rm}))
                    except ValueError:
                        if not op.get('foreign'):
                            raise
                        # refused: the checks below see to it that nothing
                        # was changed
                        bump(probes, 'removal_by_foreign_descriptors_refused')
                    else:
                        if op.get('foreign'):
                            bump(probes,
                                 'removal_by_foreign_descriptors_done')
                        for i in idxs:
                            for u in per_rg[i]:
                                del rows[u]
                        ordered = False
            except Exception as e:
                hit = _clobber(fs)
                if hit:
                    violation('C09/rename-clobber@%s' % hit[2],
                              'step %d (%s): rename replaced existing file '
                              '%s; then %s: %s' % (si, kind, hit[1],
                                                   type(e).__name__, e), si)
                else:
                    violation('C09/valid-operation-raised:%s' % kind,
                              'step %d (%s): %s: %s' % (si, kind,
                                                        type(e).__name__, e),
                              si)
                break
            res['steps'] += fs.seq - seq0
            kinds_done.add(kind)
            trail.append(kind + ('+sp' if op.get('sort_pnames') else '')
                         + ('+' + str(op.get('sort_key'))
                            if op.get('sort_key') else '')
                         + ('/' + op.get('entry') if op.get('entry') else ''))
            renames = [e for e in fs.log if e[0] > seq0 and e[1] == 'rename']
            if renames:
                bump(probes, 'renumbering_renamed_files')
                if any(e[2].endswith('.tmp') or e[3]['dst'].endswith('.tmp')
                       for e in renames):
                    bump(probes, 'rename_two_pass_used')
            # ---- monitors
            hit = _clobber(fs)
            if hit:
                violation('C09/rename-clobber@%s' % hit[2],
                          'step %d (%s): rename replaced existing file %s'
                          % (si, kind, hit[1]), si)
                break
            # ---- consistency from bytes
            probs = consistency(fs, ds)
            if probs:
                violation('C09/summary-directory-disagree:%s' % _pclass(
                    probs[0]), 'step %d (%s): %s' % (si, kind,
                                                     '; '.join(probs[:4])),
                    si)
                break
            # ---- content through a fresh handle
            try:
                snap = D.read_all(fs, ds)
            except Exception as e:
                violation('C09/unreadable-after-%s' % kind,
                          'step %d (%s): fresh open/read fails: %s: %s'
                          % (si, kind, type(e).__name__, e), si)
                break
            errs = _compare(snap, rows, order if ordered else None, parts)
            if errs:
                key = 'C09/content-differs-after-%s' % kind
                if kind == 'overwrite' and 'pts' in pkinds:
                    # mechanism of the timestamp defect: exactly the rows the
                    # overwrite should have replaced are still there
                    key = _ts_class(snap, rows, canon, parts, key)
                violation(key, 'step %d (%s): %s' % (si, kind,
                                                     '; '.join(errs[:4])), si)
                break
            h.update(('%d:%s:%s;' % (si, kind, fs.state_digest())).encode())
    bump(cnt, 'histories')
    if len(kinds_done - {'write'}) >= 2 or (len(trail) >= 3
                                            and len(kinds_done) >= 2):
        res['keys'].append('|'.join(('%dp:%s' % (len(parts), ','.join(pkinds)),
                                     ' '.join(trail), 'coll%d' % collisions)))
    if collisions:
        bump(probes, 'part_number_collisions_at_renumbering', collisions)
    if any(p.rsplit('part.', 1)[-1].split('.')[0].isdigit() and
           int(p.rsplit('part.', 1)[-1].split('.')[0]) >= 10
           for p in fs.files if 'part.' in p):
        bump(probes, 'part_number_10_or_more')
    res['digest'] = h.hexdigest() + fs.digest()
    if D.is_local(fs):
        bump(probes, 'histories_on_real_local_directory')
    if case['idx'] % 50 == 0:
        res['sample'] = {'partitions': case['shape']['parts'],
                         'ops': trail, 'knobs': case['knobs']}
    return res


def _run(fs, op, call, probes):
    """The library call of a step: here, or as a different process."""
    if not op.get('other'):
        return call()
    out = D.in_other_process(fs, call)
    probes['step_by_another_process'] = probes.get(
        'step_by_another_process', 0) + 1
    if out[0] == 'exc':
        raise D.ReaderFailed('%s: %s' % out[1:])


def _add(rows, order, df, parts):
    canon = F.canon_frame(df)
    uids, new = D.by_uid(canon)
    keep = [u for u in uids if all(new[u][p] is not None for p in parts)]
    for u in keep:
        rows[u] = new[u]
    order.append(keep)


def _collisions(pf):
    """part numbers shared by files of different partition directories."""
    seen = {}
    for rg in pf.row_groups:
        fp = rg.columns[0].file_path or ''
        name = fp.rsplit('/', 1)[-1]
        seen.setdefault(name, set()).add(fp)
    return sum(1 for v in seen.values() if len(v) > 1)


def _clobber(fs):
    for hit in fs.hits:
        if hit[0] == 'rename-clobber':
            return hit
    return None


def _pclass(p):
    for tag in ('does not exist', 'unreferenced', 'temporary', 'holds',
                'schema', 'num_rows', 'missing'):
        if tag in p:
            return tag.replace(' ', '-')
    return 'other'


def _compare(snap, rows, order, parts):
    errs = []
    canon = snap['canon']
    if 'uid' not in canon:
        return ['no uid column read back']
    got_uids, got = D.by_uid(canon)
    if len(set(got_uids)) != len(got_uids):
        errs.append('duplicate uids read back')
    gs, ms = set(got_uids), set(rows)
    if gs != ms:
        errs.append('rows differ: %d surplus %r.., %d missing %r..'
                    % (len(gs - ms), sorted(gs - ms)[:5], len(ms - gs),
                       sorted(ms - gs)[:5]))
    if snap['count'] != len(got_uids):
        errs.append('count() %d != rows read %d' % (snap['count'],
                                                    len(got_uids)))
    bad = 0
    for u in got_uids:
        m = rows.get(u)
        if m is None:
            continue
        for c, cell in m.items():
            g = got[u].get(c, 'missing-column')
            if g != cell:
                if bad < 3:
                    errs.append('cell uid=%s col=%s got %r expected %r'
                                % (u, c, g, cell))
                bad += 1
    if order is not None and not errs:
        pos = 0
        for bi, uids in enumerate(order):
            seg = got_uids[pos:pos + len(uids)]
            if sorted(seg) != sorted(uids) or (not parts and seg != uids):
                errs.append('batch %d is not read back in place' % bi)
                break
            pos += len(uids)
    return errs


def _ts_class(snap, rows, new_canon, parts, default):
    got_uids, got = D.by_uid(snap['canon'])
    surplus = set(got_uids) - set(rows)
    if not surplus:
        return default
    nu, nr = D.by_uid(new_canon)
    keys = {pkey(nr[u], parts) for u in nu}
    if all(pkey(got[u], parts) in keys for u in surplus) and \
            not (set(rows) - set(got_uids)):
        return 'C09/overwrite-timestamp-key-not-replaced'
    return default


# -------------------------------------------------------------------- shrink

def shrink_candidates(case):
    ops = case['ops']
    for sub in drop_each(ops[1:], min_len=1):
        c = copy.deepcopy(case)
        c['ops'] = [ops[0]] + list(sub)
        yield c
    for col in reversed(case['shape']['cols']):
        yield _without_col(case, col[0])
    if len(case['shape']['parts']) > 1:
        for p in list(case['shape']['parts']):
            yield _without_part(case, p)
    for i, op in enumerate(ops):
        if 'frame' in op and op['frame']['nrows'] > 2:
            c = copy.deepcopy(case)
            c['ops'][i]['frame']['nrows'] = max(1, op['frame']['nrows'] // 2)
            _fix_rgo(c)
            yield c
    if case['knobs'].get('page') or case['knobs'].get('v2'):
        c = copy.deepcopy(case)
        c['knobs'] = {'page': None, 'v2': False}
        yield c
    for i, op in enumerate(ops):
        for key, dflt in (('codec', None), ('rgo', None), ('stats', 'auto'),
                          ('sort_key', None)):
            if key in op and op[key] != dflt:
                c = copy.deepcopy(case)
                c['ops'][i][key] = dflt
                yield c


def _fix_rgo(c):
    for op in c['ops']:
        if 'frame' in op and isinstance(op.get('rgo'), list):
            op['rgo'] = [x for x in op['rgo'] if x < op['frame']['nrows']] \
                or [0]


def _without_col(case, name):
    c = copy.deepcopy(case)
    c['shape']['cols'] = [x for x in c['shape']['cols'] if x[0] != name]
    for op in c['ops']:
        if 'frame' in op:
            op['frame']['cols'] = [x for x in op['frame']['cols']
                                   if x[0] != name]
            op['frame']['order'] = [x for x in op['frame']['order']
                                    if x != name]
    return c


def _without_part(case, name):
    c = copy.deepcopy(case)
    c['shape']['parts'].pop(name, None)
    for op in c['ops']:
        if 'frame' in op:
            op['frame']['part'].pop(name, None)
            op['frame']['order'] = [x for x in op['frame']['order']
                                    if x != name]
    return c
