"""C07 - append adds rows at the end and leaves existing data untouched.

One run = one seeded history: initial write, then 1..6 appends (own frame,
options, entry point; fresh or long-lived handle), optionally interleaved
removals (to make part numbers non-contiguous) and appends that are made to
fail by an injected fault before the summary is rewritten.  After every step
the dataset is re-opened from SimFS and compared with a list-of-batches model;
during every append the storage seam is monitored: nothing below the old
footer of a single file may be written, no referenced data file of a
multi-file dataset may be opened for writing, removed, renamed or truncated,
and those bytes must be identical afterwards.
"""
import copy
import hashlib
import struct

from sim import dataset as D
from sim import frames as F
from sim import prng
from sim.gen import gen_frame_spec, gen_has_nulls, gen_shape, gen_wopts
from sim.shrink import drop_each
from sim.simfs import SimCrash

PROP = 'C07'
LEVEL = 'exploration'
TIERS = {
    'quick': {'runs': 9600, 'block': 200, 'run_timeout': 120,
              'wall_cap': 900, 'det_sample': 4},
    'thorough': {'runs': 80000, 'block': 1000, 'run_timeout': 120,
                 'wall_cap': 7200, 'det_sample': 8},
}
RULE = ('history = initial write + 1..6 appends (seeded frames incl. empty '
        'ones, permuted column order, own row_group_offsets/codec/stats, both '
        'entry points, fresh or long-lived handle) on simple / hive / hive '
        'partitioned by 1-2 columns / drill, with interleaved row-group '
        'removals and fault-interrupted appends; evaluations = histories '
        'executed; non-trivial = at least one append succeeded; distinct = '
        'distinct (scheme, partition shape, option sequence, knobs)')
COMPONENTS = {
    'real': ['fastparquet *.py from /repo working tree',
             'cencoding/speedups C extensions rebuilt from /repo .c files',
             'pandas', 'numpy', 'cramjam', 'fsspec AbstractFileSystem base',
             'a 10% slice of the fault-free histories: the real local '
             'filesystem (private tmpfs directory) through the library\'s '
             'default open/mkdirs - byte comparisons but no seam monitors'],
    'stub': ['filesystem -> sim.simfs.SimFS (event log, write-floor and '
             'protected-path monitors, fault plan)',
             'heap contents of result frames -> deterministic poison'],
}
ASSUMPTIONS = [
    'SimFS implements the file semantics fastparquet uses (cross-checked '
    'against LocalFileSystem in ./verif setup)',
    'generator domain excludes combinations that do not survive a plain '
    'write->read today (C01 domain): timedelta, categorical+v2+LZ4, nullable '
    'Int64+v2+multi-page, written non-range index, all-NaN float/NaT chunks, '
    "has_nulls='infer' with nullable pandas-3 str columns",
    'a refused append (library raises on a schema-compatible frame) is not '
    'judged as an append; the dataset must still equal the model afterwards',
]
ALL_KINDS = F.KINDS
PART_KINDS = ('pstr', 'pint', 'pbool', 'pnum', 'pfloat', 'pts', 'pcat')
SIMPLE = '/w/ds.parq'


# ------------------------------------------------------------------ generate

def generate(seed, idx, tier):
    rng = prng.stream(seed, PROP, idx, 'scenario')
    knobs = F.gen_knobs(prng.stream(seed, PROP, idx, 'knobs'))
    scheme = rng.choice(('simple', 'simple', 'hive', 'hive', 'hive', 'drill')
                        if rng.random() < 0.15 else
                        ('simple', 'simple', 'hive', 'hive', 'hive'))
    # drill paths carry no field names: the partition columns come back as
    # dir0, dir1 - a drill dataset can only be appended to when the frame's
    # partition columns are called just that
    shape = gen_shape(rng, max_parts=0 if scheme == 'simple' else 2,
                      col_kinds=ALL_KINDS,
                      # (numeric-looking text would come back as numbers:
                      # a drill path carries no type either - C08 matter)
                      part_kinds=('pstr', 'pint', 'pbool')
                      if scheme == 'drill' else PART_KINDS,
                      part_prefix='dir' if scheme == 'drill' else 'p')
    if scheme == 'drill':
        # (a drill directory is named by the bare value: no empty text)
        for v in shape['parts'].values():
            v[1] = [x for x in v[1] if x != ''] or ['a']
    if scheme == 'drill' and not shape['parts']:
        scheme = 'hive'
    has_cat = any(c[1] == 'cat' for c in shape['cols'])
    cat_mode = 'A' if rng.random() < 0.7 else 'B'
    handle = rng.choice(('fresh', 'fresh', 'long'))
    # rows without a partition key in some frames (dropped on write:
    # documented); a written, non-range index in some histories
    shape['pnull'] = bool(shape['parts']) and rng.random() < 0.35
    windex = rng.choice((None, None, None, 'i64', 'str'))
    entries = ('wrg', 'wrg-iter') if handle == 'long' else \
        ('write', 'write', 'wrg', 'wrg-iter')
    ops = []
    # (column order of the dataset itself varies too: the row id is not
    # always the first column of the schema)
    f0 = gen_frame_spec(rng, shape, 0, permute=True)
    op = {'op': 'write', 'frame': f0}
    op.update(gen_wopts(rng, f0['nrows'], has_cat, knobs))
    if rng.random() < 0.03 and not shape['parts']:
        # a dataset of more than 32 row groups
        f0['nrows'] = rng.randrange(34, 44)
        op['rgo'] = 1
    op['has_nulls'] = gen_has_nulls(rng, shape)
    ops.append(op)
    nsteps = rng.randrange(1, 7)
    multi = scheme != 'simple'
    with_removals = multi and rng.random() < 0.33
    with_faults = scheme in ('hive', 'simple') and rng.random() < 0.25
    # a dataset directory that lost its summary files (written by a tool that
    # does not keep one): the next append has to open it by listing
    drop_meta = scheme == 'hive' and not shape['parts'] and \
        not with_faults and not with_removals and rng.random() < 0.4
    batch = 0
    for _ in range(nsteps):
        batch += 1
        r = rng.random()
        if drop_meta and rng.random() < 0.5:
            ops.append({'op': 'drop_meta'})
            drop_meta = False
        if with_removals and r < 0.2:
            ops.append({'op': 'remove', 'sel': [rng.random()
                                                for _ in range(3)],
                        'frac': rng.choice((0.2, 0.5))})
            continue
        f = gen_frame_spec(rng, shape, batch, min_rows=0
                           if rng.random() < 0.12 else 1)
        if cat_mode == 'B':
            for c in f['cols']:
                if c[1] == 'cat':
                    labels = list(F.CATS)
                    rng.shuffle(labels)
                    c[4] = labels[:rng.randrange(1, len(labels) + 1)]
        o = {'op': 'failed_append' if (with_faults and r > 0.8)
             else 'append', 'frame': f,
             'entry': rng.choice(entries)}
        if o['entry'] == 'wrg-iter':
            o['cuts'] = [rng.random() for _ in range(rng.choice((0, 1, 2)))]
        if o['entry'] != 'write' and multi and rng.random() < 0.2:
            o['sort_key'] = 'const'
        if o['op'] == 'append' and o['entry'] == 'write' and \
                rng.random() < 0.15:
            # carried out by a different process: whatever this process
            # remembers about the dataset is not refreshed by it
            o['other'] = True
        o.update(gen_wopts(rng, f['nrows'], has_cat, knobs))
        if o['op'] == 'failed_append':
            o['at'] = rng.random()
            o['kind'] = rng.choice(('eio', 'enospc_partial', 'interrupt',
                                    'crash', 'eio_read') if scheme == 'hive'
                                   else ('eio', 'enospc_partial', 'interrupt',
                                         'eio_read'))
        ops.append(o)
    if not any(o['op'] == 'append' for o in ops):
        batch += 1
        f = gen_frame_spec(rng, shape, batch)
        o = {'op': 'append', 'frame': f, 'entry': 'wrg' if handle == 'long'
             else 'write'}
        o.update(gen_wopts(rng, f['nrows'], has_cat, knobs))
        ops.append(o)
    if windex:
        for o in ops:
            if 'frame' in o:
                o['frame']['index'] = windex
    else:
        for o in ops[1:]:
            if 'frame' in o and rng.random() < 0.25:
                o['frame']['dup_labels'] = True
    if ops[0].get('has_nulls') == 'infer' and rng.random() < 0.5:
        # missing values arriving only with later batches: the first batch
        # of float / timestamp columns has none, so the columns are declared
        # REQUIRED and NaN / NaT travel as values
        for c in ops[0]['frame']['cols']:
            if c[1] in ('f64', 'f32', 'dt') and c[2] == 'some':
                c[2] = 'none'
    if rng.random() < 0.15:
        # a later batch carries its timestamps at a coarser resolution than
        # the file (which is ns): refused today; a tree that accepts it has to
        # bring the rows back intact like any other append
        # (never in an append that is also interrupted by an injected
        # fault: an I/O error while the library puts the old footer back
        # after its own refusal is a second failure nobody promises to
        # survive)
        for o in ops[1:]:
            if o['op'] == 'append' and rng.random() < 0.5:
                unit = rng.choice(('us', 'ms', 's'))
                for c in o['frame']['cols']:
                    if c[1] == 'dt':
                        c[4] = unit
    local = not with_faults and rng.random() < 0.12
    drill_names = None
    if scheme == 'drill':
        # a drill dataset keeps no field names in its paths: the partition
        # columns come back as dir0, dir1 whatever they were called when the
        # dataset was written through write()
        drill_names = rng.sample(['zone', 'country', 'mm', 'aa'],
                                 len(shape['parts']))
    return {'prop': PROP, 'seed': seed, 'idx': idx, 'tier': tier,
            'local': local, 'windex': windex, 'drill_names': drill_names,
            'knobs': knobs, 'scheme': scheme, 'shape': shape, 'ops': ops,
            'cat_mode': cat_mode, 'handle': handle,
            'dur_seed': rng.randrange(2 ** 31)}


# ------------------------------------------------------------------- execute

def footer_start(buf):
    """Independent parse of the tail: offset of the footer of a single file."""
    if len(buf) < 12 or buf[-4:] != b'PAR1':
        return None
    n = struct.unpack('<I', bytes(buf[-8:-4]))[0]
    return len(buf) - 8 - n


FILTER_KINDS = ('i64', 'i32', 'u8', 'u16', 'str', 'obj', 'dt')


def filtered_read_misses(fs, path, df, op, parts):
    """Row 0 and the last row of the batch just written, looked up through
    `==` filters on up to two of their non-null values.  -> '' or message."""
    import pandas as pd
    pf = D.open_pf(path, fs)
    cols = [c for c in op['frame']['cols'] if c[1] in FILTER_KINDS]
    for i in sorted({0, len(df) - 1}):
        if any(pd.isna(df[p].iloc[i]) for p in parts):
            continue                    # a key-less row is not written
        uid = int(df['uid'].iloc[i])
        for c in cols[:2]:
            v = df[c[0]].iloc[i]
            if v is None or v is pd.NaT or (not isinstance(v, str)
                                            and pd.isna(v)):
                continue
            if hasattr(v, 'item'):
                v = v.item() if c[1] != 'dt' else v
            got = pf.to_pandas(columns=['uid'], filters=[(c[0], '==', v)],
                               **D.READ_KW)
            if uid not in set(got['uid'].tolist()):
                return ('row uid=%d not returned by filters=[(%r, "==", %r)]'
                        ' (%d rows returned)' % (uid, c[0], v, len(got)))
    return ''


def footer_counts(fs, path, multi, nrows):
    from sim import minithrift as M
    files = fs.files
    if not multi:
        fm = M.footer(files[path])
        if fm['problems'] or fm['fmd'] is None:
            return ['footer: ' + '; '.join(fm['problems'])]
        total = sum(n or 0 for _, n in M.row_groups(fm['fmd']))
        out = []
        if fm['fmd'].get(3) != total:
            out.append('footer num_rows %r != sum over its row groups %d'
                       % (fm['fmd'].get(3), total))
        if total != nrows:
            out.append('row groups hold %d rows, %d were written'
                       % (total, nrows))
        return out
    if path + '/_metadata' not in files:
        return []
    from checks.c09 import consistency
    # orphan part files of interrupted appends are no concern of C07
    return [p for p in consistency(fs, path)
            if 'unreferenced' not in p and 'temporary' not in p]


def first_meta_call(log, since):
    for ev in log:
        if ev[0] > since and ev[1].startswith('open:') and \
                ev[2].endswith('/_metadata'):
            return ev[3]['k']
    return None


def execute(case):
    D.reset_library_caches()
    res = {'verdict': 'ok', 'violations': [], 'evals': 1, 'keys': [],
           'counters': {}, 'faults': {}, 'probes': {}, 'steps': 0}
    cnt, faults, probes = res['counters'], res['faults'], res['probes']

    def bump(d, k, n=1):
        d[k] = d.get(k, 0) + n

    def violation(key, msg, upto):
        c = dict(case)
        c['ops'] = case['ops'][:upto + 1]
        res['verdict'] = 'violation'
        if not any(v['class_key'] == key for v in res['violations']):
            res['violations'].append({'class_key': key, 'message': msg,
                                      'case': c})

    scheme = case['scheme']
    parts = list(case['shape']['parts']) if scheme != 'simple' else []
    multi = scheme != 'simple'
    fs = D.new_fs('posix', local=case.get('local', False))
    path = D.ds_path(fs, 'ds.parq' if scheme == 'simple' else 'ds')
    D.READ_KW = {'index': False} if case.get('windex') else {}
    try:
        return _execute(case, fs, path, res, cnt, faults, probes, bump,
                        violation, scheme, parts, multi)
    finally:
        D.READ_KW = {}
        D.cleanup(fs)


def _named(case, df, parts, entry='write'):
    """Frame and partition list as handed to write(): with the partition
    columns' own names on a drill dataset (write_row_groups takes dirN)."""
    names = case.get('drill_names')
    if not names or entry != 'write':
        return df, parts
    m = dict(zip(parts, names))
    return df.rename(columns=m), [m[p] for p in parts]


def _execute(case, fs, path, res, cnt, faults, probes, bump, violation,
             scheme, parts, multi):
    model = D.Model()
    batch_cats = {}      # batch -> {col: labels}
    long_pf = None
    ok_appends = 0
    h = hashlib.blake2b(digest_size=8)
    optrail = []
    drng = prng.stream(case.get('dur_seed', 0), 'dur')

    with F.Knobs(case['knobs']), F.Poison():
        for si, op in enumerate(case['ops']):
            kind = op['op']
            err = plan = None
            if kind == 'write':
                df = F.build_frame(op['frame'])
                try:
                    ndf, nparts_ = _named(case, df, parts)
                    if case.get('windex'):
                        D.do_write(fs, path, ndf.set_index('k'), op, scheme,
                                   nparts_, extra={'write_index': True})
                    else:
                        D.do_write(fs, path, ndf, op, scheme, nparts_)
                except Exception as e:
                    res['verdict'] = 'discard'
                    res['discard'] = 'initial write refused: %s: %s' % (
                        type(e).__name__, e)
                    res['digest'] = 'discard'
                    res['evals'] = 0
                    return res
                model.add_frame(df, parts)
                batch_cats[len(model.batches) - 1] = _cats(op['frame'])
                if case['handle'] == 'long':
                    long_pf = D.open_pf(path, fs)
            elif kind == 'remove':
                # not judged here (C09's business): only makes part numbers
                # non-contiguous; the model follows what was removed
                try:
                    pf = D.open_pf(path, fs)
                    n = len(pf.row_groups)
                    if n > 1:
                        k = max(1, min(n - 1, int(n * op['frac'])))
                        idxs = sorted({int(s * n) % n
                                       for s in op['sel']})[:k]
                        gone = []
                        for i in idxs:
                            gone += pf[i].to_pandas(columns=['uid'])[
                                'uid'].tolist()
                        pf.remove_row_groups([pf.row_groups[i]
                                              for i in idxs],
                                             **({} if D.is_local(fs)
                                                else {'open_with':
                                                      fs.open}))
                        gone = set(gone)
                        model.batches = [([u for u in us if u not in gone],
                                          {u: r for u, r in rows.items()
                                           if u not in gone})
                                         for us, rows in model.batches]
                        bump(cnt, 'removals')
                        long_pf = D.open_pf(path, fs) \
                            if long_pf is not None else None
                except Exception as e:
                    res['verdict'] = 'discard'
                    res['discard'] = 'removal failed: %s: %s' % (
                        type(e).__name__, e)
                    res['digest'] = 'discard'
                    return res
                continue
            elif kind == 'drop_meta':
                left = sum(_max_new_files(o) for o in case['ops'][si:]
                           if o['op'] in ('append', 'failed_append'))
                nfiles = len([p for p in fs.snapshot()[0]
                              if p.endswith('.parquet')])
                # listing order is by name (part.10 sorts before part.2):
                # stay below ten part files while the summary is away
                # (and only a directory without leftovers of refused or
                # interrupted appends: a listing would pick those up)
                if nfiles + left <= 10 and long_pf is None and \
                        not cnt.get('refused_appends') and \
                        not cnt.get('fault_interrupted_appends'):
                    for name in ('_metadata', '_common_metadata'):
                        if D.is_local(fs):
                            import os
                            os.remove(path + '/' + name)
                        else:
                            fs.rm_file(path + '/' + name)
                    bump(probes, 'summary_files_removed_before_append')
                else:
                    continue
            else:
                df = F.build_frame(op['frame'])
                wdf = df.set_index('k') if case.get('windex') else df
                wdf, wparts = _named(case, wdf, parts, op.get('entry'))
                # ---- arm the storage-seam monitors
                before = fs.snapshot()[0]
                fs.hits = []
                if multi:
                    try:
                        prot = set(D.referenced_files(
                            D.open_pf(path, fs)))
                    except Exception as e:
                        violation('C07/unreadable-before-append',
                                  'step %d: cannot open dataset: %s: %s'
                                  % (si, type(e).__name__, e), si)
                        break
                    fs.protected = prot
                    fs.floors = {}
                else:
                    fstart = footer_start(before[path])
                    fs.protected = set()
                    fs.floors = {path: fstart}
                plan = rplan = None
                if kind == 'failed_append':
                    probe = D.clone_fs(fs.snapshot(), 'posix')
                    probe.begin_op(track_reads=True)
                    try:
                        D.do_append(probe, path, wdf.copy(), op, scheme, wparts)
                        m = first_meta_call(probe.log, 0)
                    except Exception:
                        m = None
                    if op['kind'] == 'eio_read':
                        # fail one of the read-side calls (stat, listing,
                        # open for reading, read) the append issues before
                        # the summary rewrite / anywhere in a single file
                        rs = [e[0] for e in probe.rlog
                              if not multi or (m and e[3] < m)]
                        if rs:
                            rplan = {rs[int(op['at'] * len(rs)) % len(rs)]:
                                     'eio_read'}
                            plan = {}
                    elif m and m > 1:
                        plan = {1 + int(op['at'] * (m - 1)) % (m - 1):
                                op['kind']}
                    elif not multi:
                        # single file: interrupt one of the append's writes
                        # (an error, disk full or cancellation - not a
                        # process death: nothing can be promised for that
                        # without journalling); the old footer must come back
                        ws = [e[3]['k'] for e in probe.log
                              if e[1] == 'write']
                        if ws:
                            plan = {ws[int(op['at'] * len(ws)) % len(ws)]:
                                    op['kind']}
                seq0 = fs.seq
                fs.sync_point()
                fs.begin_op(plan, fault_rng=drng, rplan=rplan)
                err = None
                try:
                    if op.get('other') and not plan and not rplan:
                        out = D.in_other_process(
                            fs, lambda: D.do_append(fs, path, wdf, op,
                                                    scheme, wparts) and None)
                        bump(probes, 'append_by_another_process')
                        if out[0] == 'exc':
                            raise D.ReaderFailed('%s: %s' % out[1:])
                    else:
                        D.do_append(fs, path, wdf, op, scheme, wparts,
                                    pf=long_pf if op.get('entry') != 'write'
                                    else None)
                except SimCrash as e:
                    err = e
                    fs.resolve_crash(drng)
                    long_pf = None if long_pf is None else 'reopen'
                except KeyboardInterrupt as e:
                    if not fs.fired:
                        raise
                    err = e
                except Exception as e:
                    err = e
                for f in fs.fired:
                    bump(faults, f[1])
                fs.end_op()
                res['steps'] += fs.seq - seq0
                after = fs.snapshot()[0]
                fs.protected, floors = set(), fs.floors
                fs.floors = {}
                if err is None:
                    model.add_frame(df, parts)
                    batch_cats[len(model.batches) - 1] = _cats(op['frame'])
                    if len(df):
                        ok_appends += 1
                    else:
                        bump(probes, 'empty_append_accepted')
                    optrail.append('%s/%s/%s' % (op.get('entry'),
                                                 _rgo_tag(op.get('rgo')),
                                                 op.get('codec')))
                else:
                    bump(cnt, 'refused_appends' if plan is None
                         else 'fault_interrupted_appends')
                    if plan is None:
                        bump(cnt, 'refused:%s' % type(err).__name__)
                    if multi and path + '/_metadata' not in fs.files:
                        # a refused append on a directory whose summary was
                        # removed: what it left behind would be picked up by
                        # the next listing - not an append that happened,
                        # and nothing C07 speaks about; the history ends here
                        bump(probes, 'refused_append_on_summary_less_dataset')
                        break
                    if long_pf is not None:
                        # a handle that saw a failed append is not reused
                        long_pf = 'reopen'
                # ---- invariants at the seam
                if fs.hits:
                    hit = fs.hits[0]
                    violation('C07/%s@%s' % (hit[0], hit[2]),
                              'step %d (%s): %s on %s' % (si, kind, hit[0],
                                                          hit[1]), si)
                if multi:
                    for p in sorted(prot):
                        if after.get(p) != before.get(p):
                            violation('C07/existing-data-file-changed',
                                      'step %d (%s): bytes of referenced '
                                      'data file %s changed' % (si, kind, p),
                                      si)
                            break
                else:
                    fstart = floors[path]
                    if fstart is not None and err is None and \
                            after[path][:fstart] != before[path][:fstart]:
                        violation('C07/existing-row-group-bytes-changed',
                                  'step %d: bytes below the old footer '
                                  '(offset %d) changed' % (si, fstart), si)
                if long_pf == 'reopen':
                    try:
                        long_pf = D.open_pf(path, fs)
                    except Exception:
                        long_pf = None
            # ---- oracle after every step: fresh open, full read
            try:
                snap = D.read_all(fs, path)
            except Exception as e:
                if kind != 'write' and err is not None and plan is None \
                        and not multi:
                    # refused single-file append that damaged the file: this
                    # is C18's known matter, not an append that happened
                    bump(cnt, 'refused_append_left_unreadable_file')
                    res['digest'] = 'refused-damage'
                    res['verdict'] = 'discard'
                    res['discard'] = 'refused simple append damaged file'
                    return res
                violation('C07/unreadable-after-%s' % kind,
                          'step %d (%s): fresh open/read fails: %s: %s'
                          % (si, kind, type(e).__name__, e), si)
                break
            errs = D.compare_to_model(snap, model, bool(parts))
            if errs:
                key, msg = classify(errs, snap, model, batch_cats, case)
                violation(key, 'step %d (%s): %s' % (si, kind, msg), si)
                break
            # ---- a selective read is a read too: the rows of the newest
            # batch must be found through a filter on one of their own values
            # (row groups are pruned by the statistics written with them)
            if kind in ('append', 'write') and err is None and len(df):
                miss = filtered_read_misses(fs, path, df, op, parts)
                if miss:
                    violation('C07/filtered-read-misses-appended-rows',
                              'step %d (%s): %s' % (si, kind, miss), si)
                    break
                bump(probes, 'filtered_reads_after_append')
            # ---- what any other reader goes by: the footer's own counts,
            # from the bytes, with the independent Thrift reader
            probs = footer_counts(fs, path, multi, model.nrows())
            if probs:
                violation('C07/footer-counts-disagree-with-rows',
                          'step %d (%s): %s' % (si, kind, '; '.join(probs[:3])),
                          si)
                break
            h.update(('%d:%s:%s;' % (si, kind, fs.state_digest())).encode())
            if snap['nrg'] > 1:
                bump(probes, 'multi_row_group_dataset_steps')
    bump(cnt, 'histories')
    if ok_appends:
        res['keys'].append('|'.join((
            case['scheme'], '%dp' % len(parts),
            'v2' if case['knobs']['v2'] else 'v1', str(case['knobs']['page']),
            case['cat_mode'], case['handle'], ','.join(optrail))))
        bump(cnt, 'successful_appends', ok_appends)
    if case['knobs']['page'] in (64, 128, 256):
        bump(probes, 'small_page_histories')
    if case['knobs']['v2']:
        bump(probes, 'v2_page_histories')
    if case['handle'] == 'long':
        bump(probes, 'long_lived_handle_histories')
    if D.is_local(fs):
        bump(probes, 'histories_on_real_local_directory')
    if len(parts) == 2:
        bump(probes, 'two_partition_columns')
    res['digest'] = h.hexdigest() + fs.digest()
    if case['idx'] % 50 == 0:
        res['sample'] = {'scheme': scheme, 'partitions': case['shape'][
            'parts'], 'ops': [(o['op'], o.get('entry'), o.get('rgo'),
                               o.get('codec'),
                               o.get('frame', {}).get('nrows'))
                              for o in case['ops']], 'knobs': case['knobs']}
    return res


def _max_new_files(op):
    n = op['frame']['nrows']
    if op.get('entry') == 'wrg-iter':
        return len(op.get('cuts') or ()) + 1
    r = op.get('rgo')
    if r is None or n == 0:
        return 1
    if isinstance(r, list):
        return len(r)
    return -(-n // max(1, r)) if r else 1


def _rgo_tag(r):
    return 'list' if isinstance(r, list) else str(r)


def _cats(frame):
    return {c[0]: c[4] for c in frame['cols'] if c[1] == 'cat'}


def classify(errs, snap, model, batch_cats, case):
    """Mechanism-level class key.  The categorical relabelling defect is
    recognised only when *every* mismatching cell obeys its mechanism: the
    stored code is kept, the label is looked up in another batch's category
    list."""
    msg = '; '.join(errs[:4])
    structural = [e for e in errs if not e.startswith(('cell ', '...'))]
    if structural:
        if any('row count' in e or 'uid' in e for e in structural):
            return 'C07/rows-lost-duplicated-or-reordered', msg
        return 'C07/content-mismatch', msg
    got_uids, got_rows = D.by_uid(snap['canon'])
    cat_cols = set()
    for cats in batch_cats.values():
        cat_cols.update(cats)
    explained = True
    nbad = 0
    for bi, (uids, rows) in enumerate(model.batches):
        own = batch_cats.get(bi, {})
        for u in uids:
            for c, cell in rows[u].items():
                g = got_rows.get(u, {}).get(c)
                if g == cell:
                    continue
                nbad += 1
                if c not in cat_cols or cell is None:
                    explained = False
                    continue
                labels = own.get(c) or []
                try:
                    code = labels.index(cell[1])
                except ValueError:
                    explained = False
                    continue
                ok = False
                for bj, other in batch_cats.items():
                    if bj == bi:
                        continue
                    ol = other.get(c) or []
                    if (code < len(ol) and g == ('s', ol[code])) or \
                            (code >= len(ol) and g == ('badcode', code)):
                        ok = True
                        break
                if not ok:
                    explained = False
    if nbad and explained and case['cat_mode'] == 'B':
        return 'C07/categorical-relabel', msg
    return 'C07/cell-values-changed', msg


# -------------------------------------------------------------------- shrink

def shrink_candidates(case):
    ops = case['ops']
    for sub in drop_each(ops[1:], min_len=1):
        c = copy.deepcopy(case)
        c['ops'] = [ops[0]] + list(sub)
        yield c
    # fewer columns
    for col in reversed(case['shape']['cols']):
        yield _without_col(case, col[0])
    for p in list(case['shape']['parts']):
        yield _without_part(case, p)
    # fewer rows
    for i, op in enumerate(ops):
        if 'frame' in op and op['frame']['nrows'] > 2:
            c = copy.deepcopy(case)
            c['ops'][i]['frame']['nrows'] = max(1, op['frame']['nrows'] // 2)
            _fix_rgo(c)
            yield c
    if case['knobs'].get('page') or case['knobs'].get('v2'):
        c = copy.deepcopy(case)
        c['knobs'] = {'page': None, 'v2': False}
        yield c
    for i, op in enumerate(ops):
        for key, dflt in (('codec', None), ('rgo', None), ('stats', 'auto'),
                          ('entry', 'write')):
            if key in op and op[key] != dflt and not (
                    key == 'entry' and case['handle'] == 'long'):
                c = copy.deepcopy(case)
                c['ops'][i][key] = dflt
                yield c
    if case['handle'] == 'long':
        c = copy.deepcopy(case)
        c['handle'] = 'fresh'
        yield c


def _fix_rgo(c):
    for op in c['ops']:
        if 'frame' in op and isinstance(op.get('rgo'), list):
            op['rgo'] = [x for x in op['rgo'] if x < op['frame']['nrows']] \
                or [0]


def _without_col(case, name):
    c = copy.deepcopy(case)
    c['shape']['cols'] = [x for x in c['shape']['cols'] if x[0] != name]
    for op in c['ops']:
        if 'frame' in op:
            op['frame']['cols'] = [x for x in op['frame']['cols']
                                   if x[0] != name]
            op['frame']['order'] = [x for x in op['frame']['order']
                                    if x != name]
    return c


def _without_part(case, name):
    c = copy.deepcopy(case)
    c['shape']['parts'].pop(name, None)
    for op in c['ops']:
        if 'frame' in op:
            op['frame']['part'].pop(name, None)
            op['frame']['order'] = [x for x in op['frame']['order']
                                    if x != name]
    return c
