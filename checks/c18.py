"""C18 - rejected operations raise and leave an existing dataset exactly as it
was.

The object of the property is the durable state across a *failed* multi-step
storage mutation, observed at the storage seam: SimFS snapshot before, event
log during, fresh open after.  The point inside the operation at which the
library's own refusal fires plays the role of the crash point.

The space is a finite lattice and is enumerated:

  state     single file | hive | hive partitioned        x  1 | 3 row groups
  mode      append (write(append=True)) | write_row_groups(frame) |
            write_row_groups(iterable of frames) | append='overwrite' |
            replace (plain write onto the existing path) | read
  kind      the rejections the property lists (see KINDS below)
  position  offending column first | middle | last  x  offending row in the
            first | a later row group of the new data (where the kind has one)

Each cell is run under several knob draws (page size, page version, codec,
seeded values); on top, seeded chains  valid op, refused op, valid op,
refused op ...  exercise refusals in states left behind by earlier refusals.
Cells whose input today's library accepts are not rejections; they are listed
in checks/c18_accepted.json (computed at design time by tools/c18_scan.py) and
are not run.
"""
import copy
import hashlib
import json
import os

import numpy as np
import pandas as pd

from sim import dataset as D
from sim import frames as F
from sim import prng

PROP = 'C18'
LEVEL = 'fault_enumeration'
HERE = os.path.dirname(os.path.abspath(__file__))
TIERS = {
    'quick': {'runs': None, 'draws': 6, 'chains': 1500, 'block': 150,
              'run_timeout': 120, 'wall_cap': 900, 'det_sample': 4},
    'thorough': {'runs': None, 'draws': 30, 'chains': 20000, 'block': 1000,
                 'run_timeout': 120, 'wall_cap': 7200, 'det_sample': 8},
}
RULE = ('the rejection lattice state x row groups x mode x kind x column '
        'position x row-group position is enumerated completely (every cell '
        'that is a rejection today), each cell under several seeded knob '
        'draws (page size, page version, codec, values); plus seeded chains '
        'of valid and refused operations on one dataset; evaluations = '
        'refused operations executed; distinct = distinct (cell, knob draw) '
        'and distinct chains')
COMPONENTS = {
    'real': ['fastparquet *.py from /repo working tree',
             'cencoding/speedups C extensions', 'pandas', 'numpy', 'cramjam',
             'fsspec AbstractFileSystem base'],
    'stub': ['filesystem -> sim.simfs.SimFS (snapshot, event log)'],
}
ASSUMPTIONS = [
    'byte equality of the directory is not demanded (an orphan part file left '
    'by a refused hive append does not contradict the property): the dataset '
    'must open and read back exactly its previous content through a fresh '
    'handle; read-side rejections must issue no mutating filesystem call',
    'cells that today\'s library accepts (c18_accepted.json) are not '
    'rejections and are not run',
]

STATES = ('simple', 'hive', 'hivep')
COLS = ('v0', 'v1', 'v2')
POSNAME = ('first', 'middle', 'last')

# kind -> (victim column type of the existing dataset, has_nulls at creation)
DATA_KINDS = {
    'none-in-required': ('str', False),
    'text-into-int': ('i64', True),
    'mixed-object': ('str', True),
    'unsupported-dtype': ('f64', True),
    'undecodable-object': ('str', True),
    'unknown-codec-column': ('str', True),
    # the same refusal for masked (nullable extension) dtypes: pd.NA in an
    # Int64 / boolean column of a dataset whose column is REQUIRED
    'na-in-required-int': ('i64', False),
    'na-in-required-bool': ('bool', False),
    # timestamps finer than the column's declared unit (a ms column, a frame
    # in ns with digits below the millisecond): cannot be encoded as declared
    'finer-timestamp-unit': ('tsms', True),
}
SHAPE_KINDS = ('columns-missing', 'columns-extra', 'column-renamed',
               'non-text-column-name', 'duplicate-column-name')
REPLACE_DATA_KINDS = ('none-in-required', 'int-encoding-over-text',
                      'mixed-object', 'unsupported-dtype',
                      'undecodable-object', 'unknown-codec-column')
READ_KINDS = (
    ('unknown-column-in-columns', 0), ('unknown-column-in-columns', 1),
    ('unknown-column-in-columns', 2),
    ('unknown-column-in-columns-with-dtypes', 0),
    ('unknown-column-in-columns-with-dtypes', 2),
    ('unknown-column-in-filters-flat', 0),
    ('unknown-column-in-filters-flat', 1),
    ('unknown-column-in-filters-or-groups', 0),
    ('unknown-column-in-filters-or-groups', 1),
    ('unknown-column-in-filters-or-groups', 2),
    ('unknown-column-in-row-filter', 0),
    ('unknown-column-in-categories', 0),
    ('unknown-column-in-index', 0),
)


def all_cells():
    """Every candidate cell as a dict; stable order."""
    cells = []

    def add(**kw):
        kw['id'] = '/'.join(str(kw[k]) for k in ('state', 'mode', 'kind',
                                                 'pos') if kw.get(k)
                            is not None)
        cells.append(kw)
    for state in STATES:
        modes = ['append', 'wrg-frame', 'wrg-iter']
        if state == 'hivep':
            modes.append('overwrite')
        for mode in modes:
            for kind in DATA_KINDS:
                for c in range(3):
                    for rg in ('rg-first', 'rg-later'):
                        add(state=state, mode=mode, kind=kind,
                            pos='%s-col/%s' % (POSNAME[c], rg), col=c, rg=rg)
            add(state=state, mode=mode, kind='unknown-codec-global', pos=None)
            for kind in SHAPE_KINDS:
                for c in range(3):
                    add(state=state, mode=mode, kind=kind,
                        pos='%s-col' % POSNAME[c], col=c)
                    if mode != 'wrg-iter':
                        # the same refusal for a frame without rows
                        add(state=state, mode=mode, kind=kind,
                            pos='%s-col/empty-frame' % POSNAME[c], col=c,
                            empty=True)
            if mode == 'append':
                # an argument today's library ignores on append; a tree that
                # looks at it may refuse it - then the dataset must be intact -
                # or accept it - then exactly the new rows must have arrived
                add(state=state, mode=mode, kind='custom-metadata-non-text',
                    pos=None, either=True)
                add(state=state, mode=mode, kind='file-scheme-differs',
                    pos=None)
                add(state=state, mode=mode, kind='file-scheme-differs',
                    pos='empty-frame', empty=True)
                if state != 'simple':
                    add(state=state, mode=mode, kind='partitioning-differs',
                        pos='extra-column')
                    add(state=state, mode=mode, kind='partitioning-differs',
                        pos='extra-column/empty-frame', empty=True)
                    if state == 'hivep':
                        add(state=state, mode=mode,
                            kind='partitioning-differs', pos='no-column')
        for kind in REPLACE_DATA_KINDS:
            for c in range(3):
                for rg in ('rg-first', 'rg-later'):
                    add(state=state, mode='replace', kind=kind,
                        pos='%s-col/%s' % (POSNAME[c], rg), col=c, rg=rg)
        for kind in ('non-text-column-name', 'duplicate-column-name'):
            for c in range(3):
                add(state=state, mode='replace', kind=kind,
                    pos='%s-col' % POSNAME[c], col=c)
        add(state=state, mode='replace', kind='unknown-codec-global',
            pos=None)
        add(state=state, mode='replace', kind='bad-file-scheme', pos=None)
        for kind, c in READ_KINDS:
            add(state=state, mode='read', kind=kind,
                pos='%s' % POSNAME[c], col=c)
    return cells


def accepted():
    p = os.path.join(HERE, 'c18_accepted.json')
    if not os.path.exists(p):
        return set()
    with open(p) as f:
        return set(json.load(f)['accepted'])


_CELLS = None


def lattice():
    global _CELLS
    if _CELLS is None:
        acc = accepted()
        _CELLS = [c for c in all_cells() if c['id'] not in acc]
    return _CELLS


def _plan(tier):
    n = len(lattice())
    t = TIERS[tier]
    return n * t['draws'], t['chains']


for _t in TIERS:
    a, b = _plan(_t)
    TIERS[_t]['runs'] = a + b


# ------------------------------------------------------------------ generate

def generate(seed, idx, tier):
    cells = lattice()
    nlat, nchain = _plan(tier)
    knobs = F.gen_knobs(prng.stream(seed, PROP, idx, 'knobs'))
    rng = prng.stream(seed, PROP, idx, 'scenario')
    codecs = [c for c in F.CODECS if F.codec_ok(c, knobs, False)]
    base = {'prop': PROP, 'seed': seed, 'idx': idx, 'tier': tier,
            'knobs': knobs, 'vseed': rng.randrange(2 ** 31),
            'codec': rng.choice(codecs), 'newcodec': rng.choice(codecs)}
    if idx < nlat:
        cell = cells[idx % len(cells)]
        rest = idx // len(cells)
        # every cell meets 1, 3 and 12 existing row groups (12: part numbers
        # with two digits) and small and large new frames (large: more new
        # bytes than the old footer is long) in turn
        base.update(state=cell['state'], nrg=(1, 3, 12)[rest % 3],
                    newrows=(12, 150, 12, 400)[rest % 4],
                    steps=[{'cell': cell['id']}])
        return base
    # chains
    state = rng.choice(STATES)
    victim = rng.choice(('str', 'str', 'i64', 'f64', 'bool', 'tsms'))
    strict = (victim == 'str' and rng.random() < 0.4) or \
        (victim in ('i64', 'bool') and rng.random() < 0.5)
    pool = [c for c in cells if c['state'] == state and c['mode'] not in
            ('replace',) and _victim_of(c) in (None, (victim, not strict))]
    steps = []
    for _ in range(rng.randrange(2, 6)):
        if rng.random() < 0.4:
            steps.append({'valid': rng.choice(('append', 'wrg-frame')),
                          'vseed': rng.randrange(2 ** 31)})
        else:
            steps.append({'cell': rng.choice(pool)['id']})
    if not any('cell' in s for s in steps):
        steps.append({'cell': rng.choice(pool)['id']})
    base.update(state=state, nrg=rng.choice((1, 3, 3, 12)), steps=steps,
                newrows=rng.choice((12, 12, 150, 400)),
                victim=victim, strict=strict,
                # a slice of the chains runs on a real private directory
                # through the library's default open/mkdirs: state the
                # library keeps about a local path between calls is only
                # reachable there
                local=rng.random() < 0.15,
                # one handle kept open for the whole chain: every
                # write_row_groups step (valid or refused) goes through it
                long_handle=rng.random() < 0.35)
    return base


def _victim_of(cell):
    k = cell['kind']
    if k in DATA_KINDS and cell['mode'] != 'replace':
        return DATA_KINDS[k]
    return None


# ------------------------------------------------------------- frame helpers

def good_col(vtype, n, rng):
    if vtype == 'str':
        return pd.Series([rng.choice(F.TEXT) for _ in range(n)],
                         dtype='object')
    if vtype == 'i64':
        return pd.Series(np.array([rng.randrange(-10 ** 9, 10 ** 9)
                                   for _ in range(n)], dtype='int64'))
    if vtype == 'bool':
        return pd.Series(np.array([rng.random() < 0.5 for _ in range(n)],
                                  dtype=bool))
    if vtype == 'tsms':
        return pd.Series(np.array([1_500_000_000_000 + rng.randrange(10 ** 9)
                                   for _ in range(n)],
                                  dtype='datetime64[ms]'))
    return pd.Series(np.array([rng.uniform(-1e6, 1e6) for _ in range(n)],
                              dtype='float64'))


def good_frame(vtype, n, rng, partitioned, names=COLS):
    data = {c: good_col(vtype, n, rng) for c in names}
    if partitioned:
        data['p'] = pd.Series([rng.choice(('a', 'b')) for _ in range(n)],
                              dtype='object')
        # every partition value in every chunk of 4 rows keeps row-group
        # positions meaningful
        for i in range(0, n, 2):
            data['p'].iloc[i] = 'a'
    return pd.DataFrame(data)


def poison(df, kind, col, row, vtype):
    """Make column ``col`` of df offend in row ``row``; returns (df, extra
    keyword arguments for the write)."""
    name = df.columns[col]
    kw = {}
    if kind == 'none-in-required':
        s = df[name].astype('object').copy()
        s.iloc[row] = None
        df[name] = s
    elif kind == 'finer-timestamp-unit':
        s = df[name].astype('datetime64[ns]').copy()
        s.iloc[row] = s.iloc[row] + pd.Timedelta(123456, 'ns')
        df[name] = s
    elif kind == 'na-in-required-int':
        s = df[name].astype('Int64').copy()
        s.iloc[row] = pd.NA
        df[name] = s
    elif kind == 'na-in-required-bool':
        s = df[name].astype('boolean').copy()
        s.iloc[row] = pd.NA
        df[name] = s
    elif kind in ('text-into-int',):
        s = df[name].astype('object').copy()
        s.iloc[row] = 'not-a-number'
        df[name] = s
    elif kind == 'int-encoding-over-text':
        s = pd.Series(list(range(len(df))), dtype='object')
        s.iloc[row] = 'not-a-number'
        df[name] = s
        kw['object_encoding'] = {name: 'int'}
    elif kind == 'mixed-object':
        s = df[name].astype('object').copy()
        s.iloc[row] = 12345
        df[name] = s
    elif kind == 'unsupported-dtype':
        df[name] = np.arange(len(df)).astype('complex128') + 1j
    elif kind == 'undecodable-object':
        s = df[name].astype('object').copy()
        s.iloc[row] = {'a': object}
        df[name] = s
    elif kind == 'unknown-codec-column':
        kw['compression'] = {name: 'NO-SUCH-CODEC', '_default': None}
    return df, kw


# ------------------------------------------------------------------- execute

def execute(case):
    D.reset_library_caches()
    res = {'verdict': 'ok', 'violations': [], 'evals': 0, 'keys': [],
           'counters': {}, 'faults': {}, 'probes': {}, 'steps': 0}
    cnt, probes = res['counters'], res['probes']

    def bump(d, k, n=1):
        d[k] = d.get(k, 0) + n

    def violation(key, msg, upto):
        c = dict(case)
        c['steps'] = case['steps'][:upto + 1]
        res['verdict'] = 'violation'
        if not any(v['class_key'] == key for v in res['violations']):
            res['violations'].append({'class_key': key, 'message': msg,
                                      'case': c})

    cells = {c['id']: c for c in all_cells()}
    state = case['state']
    partitioned = state == 'hivep'
    scheme = 'simple' if state == 'simple' else 'hive'
    parts = ['p'] if partitioned else []
    rng = prng.stream(case['vseed'], 'values')
    # victim type / nullability of the existing dataset
    first = next((cells[s['cell']] for s in case['steps'] if 'cell' in s),
                 None)
    if 'victim' in case:
        vtype, nullable = case['victim'], not case['strict']
    else:
        v = _victim_of(first) if first else None
        vtype, nullable = v if v else ('str', True)
    fs = D.new_fs('posix', local=case.get('local', False))
    path = D.ds_path(fs, 'ds.parq' if state == 'simple' else 'ds')
    try:
        return _execute(case, fs, path, res, cnt, probes, bump, violation,
                        cells, state, partitioned, scheme, parts, rng, vtype,
                        nullable)
    finally:
        D.cleanup(fs)


def _rows(snap):
    cols = sorted(snap['canon'])
    return F.rows_of(snap['canon'], cols)


def _execute(case, fs, path, res, cnt, probes, bump, violation, cells, state,
             partitioned, scheme, parts, rng, vtype, nullable):
    h = hashlib.blake2b(digest_size=8)
    with F.Knobs(case['knobs']), F.Poison():
        base = good_frame(vtype, 24 if case['nrg'] == 12 else 9, rng,
                          partitioned)
        try:
            D.do_write(fs, path, base,
                       {'codec': case['codec'],
                        'rgo': {1: None, 3: 3, 12: 2}[case['nrg']],
                        'has_nulls': True if nullable else False},
                       scheme, parts)
            before = D.read_all(fs, path)
        except Exception as e:
            res.update(verdict='discard', digest='discard',
                       discard='base write failed: %s: %s'
                       % (type(e).__name__, e))
            return res
        long_pf = [D.open_pf(path, fs)] if case.get('long_handle') else None
        if long_pf:
            bump(probes, 'chains_through_one_long_lived_handle')
        for si, step in enumerate(case['steps']):
            if 'valid' in step:
                vr = prng.stream(step['vseed'], 'valid')
                df = good_frame(vtype, 6, vr, partitioned)
                try:
                    through = long_pf[0] if long_pf and \
                        step['valid'] == 'wrg-frame' else None
                    D.do_append(fs, path, df,
                                {'entry': 'wrg' if step['valid'] ==
                                 'wrg-frame' else 'write',
                                 'codec': case['newcodec'], 'rgo': 3},
                                scheme, parts, pf=through)
                    if long_pf and through is None:
                        # the dataset changed behind the handle's back: a
                        # caller re-opens it
                        long_pf[0] = D.open_pf(path, fs)
                    after = D.read_all(fs, path)
                    bump(cnt, 'valid_ops_in_chains')
                    # exactly the new rows were added: nothing an earlier
                    # refused operation left behind (orphan part files, a
                    # handle kept by the library) may surface now
                    exp = _rows(before) + F.rows_of(
                        F.canon_frame(df), sorted(before['canon']))
                    got = _rows(after)
                    if (sorted(got, key=repr) if partitioned else got) != \
                            (sorted(exp, key=repr) if partitioned else exp):
                        violation('C18/valid-operation-after-refusal-wrong-'
                                  'content', 'step %d: valid %s after earlier '
                                  'refusals: %d rows read, %d expected '
                                  '(previous content + the new frame)'
                                  % (si, step['valid'], len(got), len(exp)),
                                  si)
                        break
                    before = after
                except Exception as e:
                    violation('C18/valid-operation-failed-after-refusal',
                              'step %d: valid %s after earlier refusals '
                              'fails: %s: %s' % (si, step['valid'],
                                                 type(e).__name__, e), si)
                    break
                continue
            cell = cells[step['cell']]
            seq0 = fs.seq
            files0 = fs.snapshot()[0]
            outcome, err = run_cell(fs, cell, path, scheme, parts, vtype,
                                    rng, case, long_pf)
            res['evals'] += 1
            res['steps'] += fs.seq - seq0
            mutated = fs.seq - seq0
            if mutated:
                bump(probes, 'refusal_after_storage_was_touched')
                if any(e[1] == 'write' for e in fs.log if e[0] > seq0):
                    bump(probes, 'refusal_after_bytes_were_written')
            else:
                bump(probes, 'refusal_before_any_storage_call')
            if outcome == 'returned' and cell.get('either'):
                bump(probes, 'optional_refusal_accepted')
                try:
                    after = D.read_all(fs, path)
                    exp = _rows(before) + F.rows_of(
                        F.canon_frame(LAST_FRAME[0]), sorted(before['canon']))
                    got = _rows(after)
                    bad = (sorted(got, key=repr) if partitioned else got) != \
                        (sorted(exp, key=repr) if partitioned else exp)
                    why = '%d rows read, %d expected' % (len(got), len(exp))
                except Exception as e:
                    bad, why = True, 'fresh open/read fails: %s: %s' % (
                        type(e).__name__, e)
                if bad:
                    violation('C18/dataset-damaged:%s' % cell['id'],
                              'step %d cell %s: accepted, but %s'
                              % (si, cell['id'], why), si)
                    break
                before = after
                if long_pf:
                    # the dataset changed behind the kept handle's back
                    long_pf[0] = D.open_pf(path, fs)
                continue
            if outcome == 'returned':
                violation('C18/rejected-operation-returned-normally:%s/%s'
                          % (cell['mode'], cell['kind']),
                          'step %d cell %s: the operation returned normally'
                          % (si, cell['id']), si)
            elif outcome == 'base-exception':
                violation('C18/not-an-exception:%s' % cell['id'],
                          'step %d cell %s: ended in %s' % (si, cell['id'],
                                                            err), si)
            if cell['mode'] == 'read' and mutated and not D.is_local(fs):
                violation('C18/read-side-rejection-mutated-storage:%s'
                          % cell['kind'],
                          'step %d cell %s: %d mutating filesystem calls'
                          % (si, cell['id'], mutated), si)
            try:
                after = D.read_all(fs, path)
                d = D.diff_snap(before, after)
            except Exception as e:
                d = ['fresh open/read fails: %s: %s' % (type(e).__name__, e)]
            if d:
                violation('C18/dataset-damaged:%s' % cell['id'],
                          'step %d cell %s (%s): %s' % (
                              si, cell['id'],
                              'raised %s' % type(err).__name__
                              if outcome == 'raised' else outcome,
                              '; '.join(d[:3])), si)
                break
            if outcome == 'returned':
                break
            if case['nrg'] == 12:
                bump(probes, 'refusal_on_dataset_with_two_digit_part_numbers')
            if case.get('newrows', 12) > 100:
                bump(probes, 'refusal_after_more_new_bytes_than_old_footer')
            res['keys'].append('%s|nrg%d|n%d|%s|%s|%s' % (
                cell['id'], case['nrg'], case.get('newrows', 12),
                case['knobs']['page'],
                'v2' if case['knobs']['v2'] else 'v1', case['codec']))
            h.update(('%d:%s:%s;' % (si, cell['id'],
                                     fs.state_digest())).encode())
            if fs.snapshot()[0] != files0:
                bump(probes, 'refusal_left_orphans_or_changed_bytes')
    if len(case['steps']) > 1:
        bump(cnt, 'chains')
        res['keys'].append('chain|' + '>'.join(
            s.get('cell', 'valid:' + s.get('valid', '')) for s in
            case['steps']))
    res['digest'] = h.hexdigest() + fs.digest()
    if D.is_local(fs):
        bump(probes, 'chains_on_real_local_directory')
    if case['idx'] % 97 == 0:
        res['sample'] = {'state': state, 'row_groups': case['nrg'],
                         'steps': case['steps'], 'knobs': case['knobs']}
    return res


LAST_FRAME = [None]


def run_cell(fs, cell, path, scheme, parts, vtype, rng, case, long_pf=None):
    """Perform the refused operation.  -> (outcome, exception|None)."""
    from fastparquet import ParquetFile, write
    mode, kind = cell['mode'], cell['kind']
    partitioned = bool(parts)
    col = cell.get('col', 0)
    n = case.get('newrows', 12)
    third = n // 3
    row = 1 if cell.get('rg') != 'rg-later' else 2 * third + 1
    kw = {}
    try:
        if mode == 'read':
            pf = D.open_pf(path, fs)
            names = list(COLS)
            if kind == 'unknown-column-in-columns':
                names.insert(col if col < 2 else len(names), 'nope')
                pf.to_pandas(columns=names)
            elif kind == 'unknown-column-in-columns-with-dtypes':
                names.insert(col if col < 2 else len(names), 'nope')
                pf.to_pandas(columns=names,
                             dtypes={COLS[0]: pf.dtypes[COLS[0]]})
            elif kind == 'unknown-column-in-filters-flat':
                flt = [('v0', '!=', None)]
                flt.insert(col, ('nope', '==', 1))
                pf.to_pandas(filters=flt)
            elif kind == 'unknown-column-in-filters-or-groups':
                groups = [[('v0', '!=', None)], [('v1', '!=', None)]]
                groups.insert(col if col < 2 else 2, [('nope', '==', 1)])
                pf.to_pandas(filters=groups)
            elif kind == 'unknown-column-in-row-filter':
                pf.to_pandas(filters=[('nope', '==', 1)], row_filter=True)
            elif kind == 'unknown-column-in-categories':
                pf.to_pandas(categories=['nope'] if col == 0
                             else {'nope': 4})
            elif kind == 'unknown-column-in-index':
                pf.to_pandas(index='nope')
            return 'returned', None
        if mode == 'replace':
            df = good_frame('str', n, rng, partitioned, names=('w0', 'w1',
                                                               'w2'))
            wkw = {'row_group_offsets': third}
            if kind in REPLACE_DATA_KINDS:
                if kind == 'none-in-required':
                    wkw['has_nulls'] = False
                if kind == 'unsupported-dtype':
                    pass
                df, extra = poison(df, kind, col, row, 'str')
                wkw.update(extra)
            elif kind == 'non-text-column-name':
                df = df.rename(columns={df.columns[col]: 7})
            elif kind == 'duplicate-column-name':
                other = df.columns[(col + 1) % 3]
                df = df.rename(columns={df.columns[col]: other})
            elif kind == 'unknown-codec-global':
                wkw['compression'] = 'NO-SUCH-CODEC'
            sch = scheme
            if kind == 'bad-file-scheme':
                sch = 'flat-ish'
            write(path, df, file_scheme=sch, partition_on=list(parts),
                  write_index=False, **D.io(fs), **wkw)
            return 'returned', None
        # ---- append-like modes
        df = good_frame(vtype, n, rng, partitioned)
        comp = case['newcodec']
        app_scheme, app_parts = scheme, list(parts)
        if kind in DATA_KINDS:
            df, extra = poison(df, kind, col, row, vtype)
            comp = extra.get('compression', comp)
        elif kind == 'unknown-codec-global':
            comp = 'NO-SUCH-CODEC'
        elif kind == 'columns-missing':
            df = df.drop(columns=[COLS[col]])
        elif kind == 'columns-extra':
            df.insert(col if col < 2 else len(df.columns), 'extra',
                      good_col(vtype, len(df), rng))
        elif kind == 'column-renamed':
            df = df.rename(columns={COLS[col]: COLS[col] + '_x'})
        elif kind == 'non-text-column-name':
            df = df.rename(columns={COLS[col]: 7})
        elif kind == 'duplicate-column-name':
            df = df.rename(columns={COLS[col]: COLS[(col + 1) % 3]})
        elif kind == 'file-scheme-differs':
            app_scheme = 'hive' if scheme == 'simple' else 'simple'
        elif kind == 'partitioning-differs':
            app_parts = (list(parts) + ['v0']) if cell['pos'].startswith(
                'extra-column') else []
        if cell.get('empty'):
            df = df.iloc[:0]
        LAST_FRAME[0] = df
        if mode == 'append':
            extra = {'custom_metadata': {'owner': 'etl', 'retries': 5}} \
                if kind == 'custom-metadata-non-text' else {}
            write(path, df, file_scheme=app_scheme, partition_on=app_parts,
                  append=True, row_group_offsets=third, compression=comp,
                  **extra, **D.io(fs))
        elif mode == 'overwrite':
            write(path, df, file_scheme=app_scheme, partition_on=app_parts,
                  append='overwrite', row_group_offsets=third,
                  compression=comp, **D.io(fs))
        elif mode == 'wrg-frame':
            pf = long_pf[0] if long_pf else D.open_pf(path, fs)
            pf.write_row_groups(df, third, compression=comp, **D.io(fs))
        elif mode == 'wrg-iter':
            pf = long_pf[0] if long_pf else D.open_pf(path, fs)
            chunks = [df.iloc[0:third], df.iloc[third:2 * third],
                      df.iloc[2 * third:]]
            pf.write_row_groups(iter(chunks), None, compression=comp,
                                **D.io(fs))
        return 'returned', None
    except Exception as e:
        return 'raised', e
    except BaseException as e:
        return 'base-exception', e


def evidence_extra(results):
    cells = lattice()
    seen = set()
    for r in results:
        for k in r.get('keys', []):
            if not k.startswith('chain|'):
                seen.add(k.split('|')[0])
    return {'lattice_cells': len(cells),
            'candidate_cells': len(all_cells()),
            'cells_accepted_by_library_today': len(accepted()),
            'lattice_cells_executed_and_held_or_known': len(seen),
            'lattice_enumerated_completely': True,
            'note': 'the cell lattice is enumerated completely in every '
                    'tier; knob draws per cell and chains are a seeded sample'}


# -------------------------------------------------------------------- shrink

def shrink_candidates(case):
    steps = case['steps']
    if len(steps) > 1:
        for i in range(len(steps) - 1, -1, -1):
            c = copy.deepcopy(case)
            del c['steps'][i]
            if any('cell' in s for s in c['steps']):
                yield c
    if case['knobs'].get('page') or case['knobs'].get('v2'):
        c = copy.deepcopy(case)
        c['knobs'] = {'page': None, 'v2': False}
        yield c
    for key in ('codec', 'newcodec'):
        if case.get(key):
            c = copy.deepcopy(case)
            c[key] = None
            yield c
    if case['nrg'] == 3:
        c = copy.deepcopy(case)
        c['nrg'] = 1
        yield c
