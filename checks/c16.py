"""C16 - user key-value metadata is kept verbatim; in-place updates touch
nothing else.

One run = one seeded history: write a data file (or a hive dataset whose
`_metadata` / `_common_metadata` / one part file is the target) with a
generated key-value dict, then 1..6 in-place updates through
`update_file_custom_metadata`, whose builtin `open` is shadowed by a
SimFS-backed open so that every write is logged with its offset.  Updates are
generated towards footer-size deltas (shrink by 1-7, by >= 8, equal, grow by
1-7, exactly 8, more; crossings of the 127/128 varint boundary), including
several removals in one update.  After every update: strict framing by an
independent reader, key-value list verbatim vs. a dict model, everything else
in the footer deep-equal to before, no byte below the old footer touched, data
still reads back.
"""
import copy
import hashlib

import pandas as pd

from sim import dataset as D
from sim import frames as F
from sim import minithrift as M
from sim import prng
from sim.shrink import drop_each

PROP = 'C16'
LEVEL = 'exploration'
TIERS = {
    'quick': {'runs': 16000, 'block': 400, 'run_timeout': 120,
              'wall_cap': 900, 'det_sample': 4},
    'thorough': {'runs': 160000, 'block': 2000, 'run_timeout': 120,
                 'wall_cap': 7200, 'det_sample': 8},
}
RULE = ('history = write with a generated key-value dict (str/bytes keys and '
        'values, unicode, empty, non-UTF8 bytes, up to ~70 kB) + 1..6 in-place '
        'updates (add / replace / resize by a chosen byte delta / remove '
        'present and absent keys, 1-4 keys per update) on a data file, a part '
        'file, _metadata or _common_metadata; evaluations = histories '
        'executed; non-trivial = at least one update changed the footer '
        'length; distinct = distinct (target kind, sequence of footer-delta '
        'buckets, key/value type mix)')
COMPONENTS = {
    'real': ['fastparquet *.py from /repo working tree (writer.'
             'update_file_custom_metadata, util.update_custom_metadata, '
             'api.key_value_metadata)', 'cencoding C extension (thrift)',
             'pandas', 'numpy'],
    'stub': ['builtin open inside fastparquet.writer -> SimFS.builtin_open '
             '(module-global shadowing, no source edit)',
             'strict reader -> sim.minithrift'],
}
ASSUMPTIONS = [
    '"readable by any reader" is judged by strict framing: PAR1 at both ends, '
    'the length word points at a Thrift struct that consumes exactly that '
    'many bytes, nothing after the trailer',
    'keys are compared as UTF-8 bytes; the pandas / PANDAS_ATTRS entries are '
    'never named by generated updates and must survive like any other key',
    'footers stay below 450 kB: above 500 000 bytes the C serialiser '
    '(ThriftObject.to_bytes) writes past its buffer for multi-byte text or '
    'metadata-only files - heap corruption, a native memory-safety matter '
    '(C10/C12 domain) for which a simulator has no sound oracle',
]
RESERVED = (b'pandas', b'PANDAS_ATTRS')
# written by parquet-mr, parquet-cpp / arrow, impala, parquet-rs, Parquet.Net
# (not nation.dict.parquet: reading it fails one time in six with an index out
# of range that depends on heap contents - C03/C12 matter, and not repeatable)
FOREIGN = ('test-null.parquet', 'mr_times.parq', 'decimals.parquet',
           'datapage_v2.snappy.parquet', 'gzip-nation.impala.parquet',
           'test-timezone.parquet', 'nested1.parquet',
           'metas.parq', 'repeated_no_annotation.parquet')
TEXTS = ['', 'a', 'v', 'Zürich', '北京', 'x' * 7, 'y' * 8, 'k=v', '{"a": 1}']


# ------------------------------------------------------------------ generate

def enc(x):
    """JSON-able tagged value: ['s', text] | ['b', hex] | None."""
    if x is None:
        return None
    if isinstance(x, str):
        return ['s', x]
    return ['b', bytes(x).hex()]


class Tag(str):
    """A str subclass whose str() is not its characters (what a
    `class Stage(str, Enum)` member is): stored text = the characters."""

    def __str__(self):
        return 'Tag.' + str.__str__(self).upper()

    __repr__ = __str__


def dec(t):
    if t is None:
        return None
    if t[0] == 'S':
        return Tag(t[1])
    if t[0] == 'x':                 # a value the library must refuse
        return tuple(t[1]) if isinstance(t[1], list) else t[1]
    return t[1] if t[0] == 's' else bytes.fromhex(t[1])


def spell(kb, rng, p=0.6):
    """Name an existing key as text (when it is text) or as bytes."""
    if rng.random() < p:
        try:
            return kb.decode('utf-8')
        except UnicodeDecodeError:
            pass
    return kb


def as_bytes(x):
    return x.encode('utf-8') if isinstance(x, str) else bytes(x)


def gen_value(rng, n=None, plain=False):
    """plain: ASCII text or bytes only, sizes up to 250 kB.  The footer
    serialiser of the C extension sizes its buffer as max(500 000, 1000 x
    columns x row groups + number of *characters* of the key-value list)
    (cencoding.pyx ThriftObject.to_bytes) and writes past it when a footer
    above 500 000 bytes has multi-byte text in it or no row groups
    (_common_metadata) - measured: heap corruption, not a clean failure.  That
    is a memory-safety matter of native code (C10/C12 domain), it cannot be
    repaired here (no Cython) and a simulator has no sound oracle for it, so
    every history keeps its footer below 450 kB (see generate)."""
    if plain:
        if n is None:
            n = rng.choice((0, 5, 130, 100000, 250000))
        r = rng.random()
        return 'v' * n if r < 0.5 else b'w' * n if r < 0.8 else \
            bytes([0xFF, 0xFE] * (n // 2) + [0x80] * (n % 2))
    if n is None:
        r = rng.random()
        if r < 0.5:
            n = rng.randrange(0, 12)
        elif r < 0.8:
            n = rng.randrange(100, 140)          # around the varint boundary
        elif r < 0.97:
            n = rng.randrange(12, 100)
        else:
            n = rng.choice((16383, 16384, 70000))
    kind = rng.random()
    if kind < 0.12 and n >= 2:
        # leading / trailing whitespace and control characters: verbatim
        # means verbatim
        # (a byte-order mark is a character like any other)
        return rng.choice((' ', '\t', '\n', '\x00', '\ufeff', '\ufeff')) + \
            'v' * (n - 2) + rng.choice((' ', '\n', '\r', '\x00', '\ufeff'))
    if kind < 0.45:
        return 'v' * n
    if kind < 0.6:
        return ('é' * (n // 2) + 'v' * (n % 2))  # n bytes of UTF-8
    if kind < 0.85:
        return b'w' * n
    return bytes([0xFF, 0xFE] * (n // 2) + [0x80] * (n % 2))  # not UTF-8


RAW_KEYS = [b'\xe2', b'\xe3', b'id\xff', b'id\xfe', b'\xff\xfe k', b'k\x80']


def gen_key(rng, used):
    for _ in range(50):
        r = rng.random()
        if r > 0.9:
            # keys that are not UTF-8: distinct byte strings whose lossy text
            # forms coincide
            key = rng.choice(RAW_KEYS)
            if key not in used:
                return key
            continue
        # ('clé' composed and decomposed: equal after Unicode normalisation,
        # different keys)
        base = rng.choice(('k', 'key', 'cl\u00e9', 'cle\u0301', 'кл', 'a.b',
                           'K', ''))
        key = '%s%d' % (base, rng.randrange(0, 30))
        if r < 0.25:
            key = key.encode('utf-8')
        kb = as_bytes(key)
        if kb not in used and kb not in RESERVED:
            return key
    return 'k%d' % rng.randrange(10 ** 6)


def generate(seed, idx, tier):
    rng = prng.stream(seed, PROP, idx, 'scenario')
    # 'data-named-meta': a data file whose name happens to end in _metadata;
    # every update then says is_metadata_file=False explicitly
    # 'foreign': a file written by another tool (repository test data)
    target = rng.choice(('data', 'data', 'data', '_metadata', '_metadata',
                         '_common_metadata', 'part', 'data-named-meta',
                         'foreign'))
    initial = {}
    used = set()
    # 4% of the histories carry values of 100 kB / 250 kB (plain ones, and
    # the key-value total stays below 400 kB: see gen_value)
    big = rng.random() < 0.04
    model = {}

    def fit(val):
        if big and sum(map(len, model.values())) + len(val) > 400000:
            return val[:7]
        return val
    for _ in range(rng.choice((0, 1, 2, 3, 5))):
        k = gen_key(rng, used)
        used.add(as_bytes(k))
        v = fit(gen_value(rng, plain=big))
        ek, ev = enc(k), enc(v)
        if rng.random() < 0.1 and ev[0] == 's':
            ev = ['S', ev[1]]           # given as a str subclass instance
        if rng.random() < 0.05 and ek[0] == 's':
            ek = ['S', ek[1]]
        initial[len(initial)] = [ek, ev]
        model[as_bytes(k)] = as_bytes(v)
    updates = []
    cat_append = target == 'data' and rng.random() < 0.3
    wipe = not cat_append and target != 'foreign' and rng.random() < 0.05
    wipe_at = rng.randrange(0, 3)
    for _ in range(rng.randrange(1, 7) + (2 if wipe else 0)):
        upd = []
        seen = set()
        before_model = dict(model)
        nkeys = rng.choice((1, 1, 1, 2, 2, 3, 4))
        for _ in range(nkeys):
            r = rng.random()
            present = [k for k in model if k not in seen]
            if r < 0.3 and present:                      # resize by a delta
                kb = rng.choice(sorted(present))
                old = model[kb]
                delta = rng.choice((-64, -17, -9, -8, -7, -5, -3, -2, -1, -1,
                                    0, 1, 1, 2, 3, 5, 7, 8, 8, 9, 17, 64))
                val = fit(gen_value(rng, max(0, len(old) + delta),
                                    plain=big))
                key = spell(kb, rng)
                upd.append([enc(key), enc(val)])
                model[kb] = as_bytes(val)
                seen.add(kb)
            elif r < 0.36 and present:                   # no-op entry
                # replaces a key by the value it already has (among entries
                # that do change something)
                kb = rng.choice(sorted(present))
                cur = model[kb]
                try:
                    val = cur.decode('utf-8') if rng.random() < 0.6 else cur
                except UnicodeDecodeError:
                    val = cur
                upd.append([enc(spell(kb, rng)), enc(val)])
                seen.add(kb)
            elif r < 0.55 and present:                   # remove present
                kb = rng.choice(sorted(present))
                key = spell(kb, rng)
                upd.append([enc(key), None])
                del model[kb]
                seen.add(kb)
            elif r < 0.62:                               # remove absent
                key = gen_key(rng, set(model) | seen)
                upd.append([enc(key), None])
                seen.add(as_bytes(key))
            elif r < 0.72 and present:                   # replace, any size
                kb = rng.choice(sorted(present))
                val = fit(gen_value(rng, plain=big))
                upd.append([enc(spell(kb, rng, 1.0)), enc(val)])
                model[kb] = as_bytes(val)
                seen.add(kb)
            else:                                        # add
                key = gen_key(rng, set(model) | seen)
                val = fit(gen_value(rng, plain=big))
                upd.append([enc(key), enc(val)])
                model[as_bytes(key)] = as_bytes(val)
                seen.add(as_bytes(key))
        u = {'kv': upd, 'flag': rng.choice((None, None, 'explicit'))}
        r = rng.random()
        if wipe and len(updates) == wipe_at:
            # remove every key there is - the library's own `pandas` entry
            # included - so that the stored list is present but empty; keys
            # added later must still arrive
            upd[:] = [[enc(spell(kb, rng)), None]
                      for kb in sorted(before_model)]
            upd.append([enc(rng.choice(('pandas', b'pandas'))), None])
            rng.shuffle(upd)
            model.clear()
            u['wipe'] = True
            updates.append(u)
            continue
        if r < 0.06:
            # an update the library must refuse (a value or key that is
            # neither text, bytes nor None) in the middle of valid entries:
            # whatever it does, the file has to stay as it was
            badv = rng.choice((5, 1.5, True, ['a', 1], {'a': 1}))
            if rng.random() < 0.8:
                ent = [enc(gen_key(rng, set(model))), ['x', badv]]
            else:
                ent = [['x', rng.choice((5, 2.5))], enc('v')]
            upd.insert(rng.randrange(0, len(upd) + 1), ent)
            u['bad'] = True
            # none of its entries takes effect
            model.clear()
            model.update(before_model)
        elif r < 0.2:
            # carried out by a different process: nothing this process has
            # memoised about the file is refreshed by it
            u['other'] = True
        updates.append(u)
    return {'prop': PROP, 'seed': seed, 'idx': idx, 'tier': tier,
            'target': target, 'initial': list(initial.values()),
            'updates': updates, 'nrows': rng.randrange(1, 20),
            'cat_append': cat_append,
            'foreign_file': rng.choice(FOREIGN),
            'local': rng.random() < 0.1,
            'fseed': rng.randrange(2 ** 31),
            'codec': rng.choice((None, 'SNAPPY', 'GZIP'))}


# ------------------------------------------------------------------- execute

def bucket(d):
    if d == 0:
        return '0'
    s = '-' if d < 0 else '+'
    a = abs(d)
    return s + ('1-7' if a < 8 else '8' if a == 8 else '9-64' if a <= 64
                else 'big')


def strip_kv(fmd):
    return {k: v for k, v in fmd.items() if k != 5}


def parse(data, is_meta):
    """footer() plus, for metadata-only files, the stricter expectation that
    the footer starts right after the leading magic."""
    r = M.footer(data)
    if is_meta and r['fmd'] is not None and r['start'] != 4:
        r['problems'].append('metadata-only file: footer starts at %d, not 4'
                             % r['start'])
    return r


def execute(case):
    D.reset_library_caches()
    import fastparquet.writer as fw
    from fastparquet import update_file_custom_metadata
    res = {'verdict': 'ok', 'violations': [], 'evals': 1, 'keys': [],
           'counters': {}, 'faults': {}, 'probes': {}, 'steps': 0}
    cnt, probes = res['counters'], res['probes']

    def bump(d, k, n=1):
        d[k] = d.get(k, 0) + n

    def violation(key, msg, upto):
        c = dict(case)
        c['updates'] = case['updates'][:upto + 1]
        res['verdict'] = 'violation'
        if not any(v['class_key'] == key for v in res['violations']):
            res['violations'].append({'class_key': key, 'message': msg,
                                      'case': c})

    fs = D.new_fs('posix', local=case.get('local', False))
    try:
        return _execute(case, fs, res, cnt, probes, bump, violation, fw,
                        update_file_custom_metadata)
    finally:
        D.FILELIKE.clear()
        D.cleanup(fs)


def _execute(case, fs, res, cnt, probes, bump, violation, fw,
             update_file_custom_metadata):
    spec = {'batch': 0, 'nrows': case['nrows'],
            'cols': [['uid', 'uid', 'none', 0, None],
                     ['f', 'f64', 'some', case['fseed'], None],
                     ['s', 'str', 'some', case['fseed'] + 1, None]],
            'part': {}}
    df = F.build_frame(spec)
    initial = {}
    for k, v in case['initial']:
        initial[dec(k)] = dec(v)
    target = case['target']
    is_meta = target in ('_metadata', '_common_metadata')
    foreign = target == 'foreign'
    try:
        if foreign:
            import os
            path = D.ds_path(fs, case['foreign_file'])
            src = os.path.join('/repo/test-data', case['foreign_file'])
            with open(src, 'rb') as f:
                blob = f.read()
            if D.is_local(fs):
                with open(path, 'wb') as f:
                    f.write(blob)
            else:
                fs.files[path] = bytearray(blob)
            readpath = path
            initial = {}
            bump(probes, 'file_written_by_another_tool')
        elif target in ('data', 'data-named-meta'):
            path = D.ds_path(fs, 'one.parq' if target == 'data'
                             else 'sensors_metadata')
            if target != 'data':
                D.FILELIKE.add(path)
            if case.get('cat_append'):
                # a categorical column whose appended row group has more
                # categories: the summary's pandas entry would change if
                # anything re-consolidated it
                df['c'] = pd.Categorical(['x', 'y'] * (len(df) // 2)
                                         + ['x'] * (len(df) % 2),
                                         categories=['x', 'y'])
            D.do_write(fs, path, df, {'codec': case['codec']}, 'simple', [],
                       extra={'custom_metadata': dict(initial)})
            if case.get('cat_append'):
                df2 = df.copy()
                df2['uid'] = df2['uid'] + 10 ** 6
                df2['c'] = pd.Categorical(['x'] * len(df),
                                          categories=['x', 'y', 'q', 'w',
                                                      'z'])
                D.do_append(fs, path, df2, {'codec': case['codec']},
                            'simple', [])
            readpath = path
        else:
            dsp = D.ds_path(fs)
            D.do_write(fs, dsp, df, {'codec': case['codec'],
                                      'rgo': max(1, case['nrows'] // 2)},
                       'hive', [], extra={'custom_metadata': dict(initial)})
            readpath = dsp
            path = dsp + '/' + ('part.0.parquet' if target == 'part'
                                else target)
    except Exception as e:
        res.update(verdict='discard', digest='discard', evals=0,
                   discard='initial write refused: %s: %s'
                   % (type(e).__name__, e))
        return res
    base = D.read_all(fs, readpath)
    model = {as_bytes(k): as_bytes(v) for k, v in initial.items()}
    if foreign:
        model = {k: v for k, v in M.kv(M.footer(fs.files[path])['fmd'])
                 if k not in RESERVED}
        if any(v is None for v in model.values()):
            res.update(verdict='discard', digest='discard', evals=0,
                       discard='foreign file with a value-less key')
            return res
    h = hashlib.blake2b(digest_size=8)
    trail = []
    types = set()

    # ---- write-time: verbatim
    r0 = parse(fs.files[path], is_meta)
    if r0['problems']:
        violation('C16/invalid-file-after-write', '; '.join(r0['problems']),
                  -1)
        res['digest'] = 'bad-write'
        return res
    err = kv_mismatch(r0['fmd'], model, foreign)
    if err:
        violation('C16/write-time-metadata-not-verbatim', err, -1)
    err = api_mismatch(fs, readpath if not is_meta and target != 'part'
                       else path, model)
    if err:
        violation('C16/write-time-metadata-not-verbatim', 'through '
                  'ParquetFile.key_value_metadata: ' + err, -1)

    if not D.is_local(fs):
        fw.open = fs.builtin_open
    # a handle kept open all along: the same updates are applied to it in
    # memory (util.update_custom_metadata), and its key-value view - read
    # once beforehand - has to follow
    try:
        lpf = D.open_pf(path, fs)
        lpf.key_value_metadata
    except Exception:
        lpf = None
    try:
        wiped = foreign
        for ui, upd in enumerate(case['updates']):
            before = bytes(fs.files[path])
            rb = parse(before, is_meta)
            arg = {}
            for k, v in upd['kv']:
                arg[dec(k)] = dec(v)
                types.add((k[0], v[0] if v else 'N'))
                if upd.get('bad'):
                    continue
                kb = as_bytes(dec(k))
                if v is None:
                    model.pop(kb, None)
                else:
                    model[kb] = as_bytes(dec(v))
            others0 = {p: bytes(b) for p, b in fs.files.items()
                       if p != path}
            fs.hits = []
            fs.floors = {path: rb['start']}
            seq0 = fs.seq
            def call():
                if upd.get('flag') == 'explicit' or \
                        target == 'data-named-meta':
                    update_file_custom_metadata(path, arg,
                                                is_metadata_file=is_meta)
                else:
                    update_file_custom_metadata(path, arg)
            try:
                if upd.get('other'):
                    out = D.in_other_process(fs, call)
                    bump(probes, 'update_by_another_process')
                    if out[0] == 'exc':
                        raise RuntimeError('%s: %s' % out[1:])
                else:
                    call()
            except Exception as e:
                if upd.get('bad'):
                    bump(probes, 'invalid_update_refused')
                    if bytes(fs.files[path]) != before:
                        ra = parse(bytes(fs.files[path]), is_meta)
                        violation('C16/refused-update-changed-file',
                                  'update %d was refused (%s: %s) but the '
                                  'file is not what it was: %s'
                                  % (ui, type(e).__name__, str(e)[:80],
                                     '; '.join(ra['problems'])
                                     or 'still valid, other bytes'), ui)
                        break
                    continue
                violation('C16/valid-update-raised',
                          'update %d %r: %s: %s' % (ui, list(arg)[:4],
                                                    type(e).__name__, e), ui)
                break
            finally:
                fs.floors = {}
            if upd.get('bad'):
                # accepted after all (coerced?): nothing to model it with;
                # the file must at least still be a valid one
                bump(probes, 'invalid_update_accepted')
                ra = parse(bytes(fs.files[path]), is_meta)
                if ra['problems']:
                    violation('C16/invalid-file-after-update',
                              'update %d (with a non-text value, accepted): '
                              '%s' % (ui, '; '.join(ra['problems'])), ui)
                break
            res['steps'] += fs.seq - seq0
            after = bytes(fs.files[path])
            ra = parse(after, is_meta)
            # the update names one file: every other file of the dataset is
            # what it was
            others1 = {p: bytes(b) for p, b in fs.files.items() if p != path}
            if others1 != others0:
                ch = sorted(p for p in set(others0) | set(others1)
                            if others0.get(p) != others1.get(p))
                violation('C16/another-file-changed',
                          'update %d of %s changed %s' % (
                              ui, path.rsplit('/', 1)[-1],
                              [c.rsplit('/', 1)[-1] for c in ch[:3]]), ui)
                break
            # (4) nothing below the old footer
            if fs.hits:
                hit = fs.hits[0]
                violation('C16/%s@%s' % (hit[0], hit[2]),
                          'update %d: %s' % (ui, hit[0]), ui)
            if after[:rb['start']] != before[:rb['start']]:
                violation('C16/data-bytes-changed',
                          'update %d: bytes below the old footer offset %d '
                          'changed' % (ui, rb['start']), ui)
                break
            # (2) strict validity
            if ra['problems']:
                key = 'C16/invalid-file-after-update'
                if trailing_bytes(after, rb['start']):
                    key = 'C16/trailing-bytes-after-footer'
                violation(key, 'update %d (footer %d -> ?): %s'
                          % (ui, rb['length'], '; '.join(ra['problems'])), ui)
                break
            delta = ra['length'] - rb['length']
            trail.append(bucket(delta))
            if delta:
                bump(cnt, 'updates_changing_footer_length')
            bump(probes, 'delta_' + bucket(delta))
            if (rb['length'] < 128) != (ra['length'] < 128) or \
                    (rb['length'] < 16384) != (ra['length'] < 16384):
                bump(probes, 'footer_length_crossed_varint_boundary')
            if sum(1 for k, v in upd['kv'] if v is None) >= 2:
                bump(probes, 'several_removals_in_one_update')
            # (3) everything else untouched
            if strip_kv(ra['fmd']) != strip_kv(rb['fmd']):
                violation('C16/other-footer-fields-changed',
                          'update %d: schema / row groups / num_rows / '
                          'created_by differ from before' % ui, ui)
                break
            # (1) keys verbatim: raw list and through the API
            wiped = wiped or bool(upd.get('wipe'))
            err = kv_mismatch(ra['fmd'], model, wiped)
            if err:
                violation('C16/keys-differ-from-model', 'update %d %s: %s'
                          % (ui, _short(upd), err), ui)
                break
            named = {as_bytes(dec(k)) for k, v in upd['kv']
                     if k[0] != 'x'}
            rsv_b = {k: v for k, v in M.kv(rb['fmd'])
                     if k in RESERVED and k not in named}
            rsv_a = {k: v for k, v in M.kv(ra['fmd'])
                     if k in RESERVED and k not in named}
            if upd.get('wipe'):
                bump(probes, 'every_key_removed')
                if M.kv(ra['fmd']):
                    violation('C16/keys-differ-from-model',
                              'update %d removed every key, the file still '
                              'holds %r' % (ui, M.kv(ra['fmd'])[:3]), ui)
                    break
            if rsv_a != rsv_b:
                violation('C16/unnamed-key-changed',
                          'update %d: the %s entry, which the update did not '
                          'name, changed' % (ui, sorted(
                              k for k in rsv_b if rsv_a.get(k) != rsv_b[k])),
                          ui)
                break
            err = api_mismatch(fs, path, model)
            if err:
                violation('C16/keys-differ-from-model',
                          'update %d through ParquetFile: %s' % (ui, err), ui)
                break
            if lpf is not None:
                from fastparquet.util import update_custom_metadata
                try:
                    update_custom_metadata(lpf, arg)
                    err = api_mismatch(fs, path, model, pf=lpf)
                except Exception as e:
                    err = '%s: %s' % (type(e).__name__, e)
                if err:
                    violation('C16/kept-handle-view-differs-from-model',
                              'update %d applied to a handle kept open: %s'
                              % (ui, err), ui)
                    break
            # (5) data still reads back
            try:
                snap = D.read_all(fs, readpath)
                d = D.diff_snap(base, snap)
            except Exception as e:
                d = ['%s: %s' % (type(e).__name__, e)]
            if d:
                violation('C16/data-changed-or-unreadable',
                          'update %d: %s' % (ui, '; '.join(d[:3])), ui)
                break
            h.update(('%d:%s;' % (ui, hashlib.blake2b(
                after, digest_size=8).hexdigest())).encode())
    finally:
        if not D.is_local(fs):
            del fw.open
    bump(cnt, 'histories')
    if D.is_local(fs):
        bump(probes, 'histories_on_real_local_file')
    if case.get('cat_append'):
        bump(probes, 'categorical_column_with_appended_categories')
    if any(t != '0' for t in trail):
        res['keys'].append('|'.join((target, ' '.join(trail), ','.join(
            sorted('%s%s' % t for t in types)))))
    res['digest'] = h.hexdigest() + fs.digest()
    if case['idx'] % 100 == 0:
        res['sample'] = {'target': target, 'initial': case['initial'][:3],
                         'updates': [_short(u) for u in case['updates']],
                         'footer_deltas': trail}
    return res


def _short(upd):
    out = []
    for k, v in upd['kv']:
        out.append([str(k[1])[:12], None if v is None
                    else 'refused:%r' % (v[1],) if v[0] == 'x'
                    else '%s:%d' % (v[0], len(dec(v)))])
    return out


def kv_mismatch(fmd, model, pandas_removed=False):
    raw = M.kv(fmd)
    keys = [k for k, _ in raw]
    if len(set(keys)) != len(keys):
        dup = sorted({k for k in keys if keys.count(k) > 1})
        return 'duplicate keys in the stored list: %r' % dup[:3]
    got = {k: v for k, v in raw if k not in RESERVED}
    if got != model:
        missing = sorted(set(model) - set(got))
        extra = sorted(set(got) - set(model))
        diff = sorted(k for k in set(got) & set(model) if got[k] != model[k])
        return 'missing %r, unexpected %r, wrong value for %r' % (
            missing[:3], extra[:3], diff[:3])
    if not pandas_removed and not any(k == b'pandas' for k in keys):
        return 'pandas entry disappeared'
    return None


def api_mismatch(fs, path, model, pf=None):
    try:
        kvm = (pf or D.open_pf(path, fs)).key_value_metadata
    except Exception as e:
        return 'open fails: %s: %s' % (type(e).__name__, e)
    got = {}
    for k, v in kvm.items():
        kb = as_bytes(k)
        if kb in RESERVED:
            continue
        got[kb] = as_bytes(v)
    if got != model:
        return 'key_value_metadata %r.. != model %r..' % (
            sorted(got.items())[:2], sorted(model.items())[:2])
    # documented normalisation: UTF-8 decodable -> str, else bytes
    for k, v in kvm.items():
        for x in (k, v):
            if isinstance(x, bytes):
                try:
                    x.decode('utf-8')
                except UnicodeDecodeError:
                    continue
                return 'decodable bytes returned as bytes: %r' % x[:20]
    return None


def trailing_bytes(data, start):
    """Mechanism of the missing truncate: a complete, valid footer + trailer
    sits at the old offset and stale bytes follow it."""
    try:
        fmd, end = M.decode(data, start)
    except M.ThriftError:
        return False
    n = end - start
    return (data[end:end + 4] == n.to_bytes(4, 'little')
            and data[end + 4:end + 8] == b'PAR1' and len(data) > end + 8)


# -------------------------------------------------------------------- shrink

def shrink_candidates(case):
    ups = case['updates']
    for sub in drop_each(ups, min_len=1):
        c = copy.deepcopy(case)
        c['updates'] = list(sub)
        yield c
    for i, u in enumerate(ups):
        if len(u['kv']) > 1:
            for j in range(len(u['kv'])):
                c = copy.deepcopy(case)
                del c['updates'][i]['kv'][j]
                yield c
    for sub in drop_each(case['initial']):
        c = copy.deepcopy(case)
        c['initial'] = list(sub)
        yield c
    if case['nrows'] > 1:
        c = copy.deepcopy(case)
        c['nrows'] = 1
        yield c
    if case['codec']:
        c = copy.deepcopy(case)
        c['codec'] = None
        yield c
    # shorter values
    for i, u in enumerate(ups):
        for j, (k, v) in enumerate(u['kv']):
            if v is not None and len(dec(v)) > 16:
                c = copy.deepcopy(case)
                x = dec(v)
                c['updates'][i]['kv'][j][1] = enc(x[:len(x) // 2])
                yield c
    for i, (k, v) in enumerate(case['initial']):
        if len(dec(v)) > 16:
            c = copy.deepcopy(case)
            x = dec(v)
            c['initial'][i][1] = enc(x[:len(x) // 2])
            yield c
