"""C20 - concurrent reads and derived handles give the same results as
sequential use; concurrent part-file writers produce the same bytes.

One run = one dataset on SimFS, one shared ``ParquetFile`` handle, 2..16
worker threads with 1..3 operations each, and one schedule chosen by the PRNG
and executed by the baton scheduler (sim/sched.py): real threads, exactly one
runnable, pre-emption only at the interpreter's own switch sites inside
fastparquet code.  Before the concurrent phase every operation is executed
alone on a fresh handle; afterwards
  (1) every concurrent operation returned exactly its solo value,
  (2) no operation raised,
  (3) the shared handle still answers like a fresh one and its schema tree is
      unchanged,
  (4) writer runs: bytes of every part file and the shared metadata object
      equal those of the sequential execution.
"""
import copy
import hashlib
import json
import pickle

import numpy as np
import pandas as pd

from sim import dataset as D
from sim import frames as F
from sim import prng
from sim import sched as S
from sim.shrink import drop_each

PROP = 'C20'
LEVEL = 'exploration'
TIERS = {
    'quick': {'runs': 3200, 'block': 80, 'run_timeout': 120,
              'wall_cap': 900, 'det_sample': 4},
    'thorough': {'runs': 24000, 'block': 500, 'run_timeout': 120,
                 'wall_cap': 7200, 'det_sample': 8},
}
RULE = ('run = seeded dataset (single file / hive / partitioned; 3-6 row '
        'groups; categorical, nulls, statistics; v1/v2 pages, page sizes) + '
        '2..16 threads x 1..3 operations on one shared handle (or writer '
        'threads sharing one metadata object) + one seeded schedule '
        '(random(p), PCT(d), round-robin(q), coarse); evaluations = schedules '
        'executed; non-trivial = at least one context switch while both '
        'threads had an operation in flight; distinct = distinct '
        'context-switch sequences (hash of the recorded switch list)')
COMPONENTS = {
    'real': ['fastparquet *.py from /repo working tree (every frame of the '
             'package is a pre-emption domain)', 'cencoding/speedups C '
             'extensions (run atomically under the GIL, as in production)',
             'pandas', 'numpy', 'cramjam', 'real threading.Thread workers'],
    'stub': ['thread scheduler -> sim.sched baton scheduler on '
             'sys.monitoring events (decides who runs at every interpreter '
             'switch site)', 'filesystem -> SimFS (its calls are pre-emption '
             'points)', 'heap contents of result frames -> poison'],
}
ASSUMPTIONS = [
    'schedule model = CPython 3.12 eval-breaker sites inside fastparquet '
    'Python code plus simulated I/O calls; C-level code runs atomically '
    '(no nogil sections in the extension modules); a free-threaded build '
    'has more switch sites',
    'the shared handle is opened from a path (a caller-supplied open file '
    'object has one cursor by construction)',
]
SHRINK_BUDGET = 500
_CODES = None


def _dense(case):
    import os
    return bool(case.get('dense')) or os.environ.get('VERIF_DENSE') == '1'


def codes():
    global _CODES
    if _CODES is None:
        _CODES = S.fastparquet_codes()
    return _CODES


DATA_COLS = ('uid', 'f', 's', 'c', 'i', 'd', 'b')
DERIVED = ('slice', 'item', 'iter', 'head')


# ------------------------------------------------------------------ generate

def gen_filter(rng, partitioned, nrows):
    r = rng.random()
    if r < 0.25:
        return [['uid', rng.choice(('>', '>=', '<', '<=')),
                 rng.randrange(0, max(2, nrows))]]
    if r < 0.45:
        return [['i', rng.choice(('>', '<', '==', '!=')),
                 rng.randrange(-50, 50)]]
    if r < 0.6:
        return [['uid', 'in', sorted(rng.sample(range(max(4, nrows)), 3))]]
    if r < 0.75:
        return [[['uid', '<', nrows // 3]], [['uid', '>', 2 * nrows // 3]]]
    if r < 0.82 and partitioned:
        return [['p', '==', rng.choice(('a', 'b'))]]
    if r < 0.9:
        # converted-type columns: the decoded min/max are memoised on the
        # shared statistics objects
        base = 1_500_000_000_000_000_000
        return [['d', rng.choice(('>', '<', '>=')),
                 {'ts': base + rng.randrange(-10 ** 18, 10 ** 18)}]]
    if r < 0.95:
        return [['s', rng.choice(('>=', '<', '!=')), rng.choice(F.TEXT)]]
    return [['f', '>', 0.0], ['uid', '>=', rng.randrange(0, max(2, nrows))]]


def gen_op(rng, cfg, nrg, nrows, partitioned, v2=False, extras=(),
           theme=None):
    kinds = ['read', 'read', 'cols', 'filt', 'filt', 'cats', 'stats', 'spc',
             'pickle', 'attrs', 'count', 'text']
    if not v2:
        # row-level filtering over data page v2 or over chunks of several
        # pages fails sequentially today (C13 domain): v2 here means "either"
        kinds.append('rowfilt')
    if cfg == 'B':
        kinds += ['slice', 'slice', 'item', 'iter', 'head']
    k = rng.choice(kinds)
    if theme in kinds and rng.random() < 0.8:
        k = theme
    op = {'op': k}
    if k == 'cols':
        cols = list(DATA_COLS) + list(extras)
        rng.shuffle(cols)
        op['columns'] = cols[:rng.randrange(1, len(cols))]
    elif k in ('filt', 'rowfilt', 'count'):
        op['filters'] = gen_filter(rng, partitioned, nrows)
        if k == 'filt' and rng.random() < 0.4:
            op['columns'] = ['uid', 'f']
    elif k == 'cats':
        op['categories'] = rng.choice((['c'], [], {'c': 4}))
    elif k == 'slice':
        i = rng.randrange(0, nrg)
        j = rng.randrange(i + 1, nrg + 1)
        op['i'], op['j'] = i, j
        op['then'] = rng.choice(('read', 'count', 'cols'))
    elif k == 'item':
        op['i'] = rng.randrange(0, nrg)
    elif k == 'iter':
        if rng.random() < 0.5:
            op['filters'] = gen_filter(rng, partitioned, nrows)
    elif k == 'head':
        op['n'] = rng.randrange(1, 12)
    return op


DS_SHARE = 4        # consecutive run indices that share one dataset


def generate(seed, idx, tier):
    # the dataset (and its knobs) is drawn per group of DS_SHARE runs so that
    # a worker can build it once and explore several workloads / schedules
    drng = prng.stream(seed, PROP, idx // DS_SHARE, 'dataset')
    knobs = F.gen_knobs(prng.stream(seed, PROP, idx // DS_SHARE, 'knobs'))
    rng = prng.stream(seed, PROP, idx, 'scenario')
    srng = prng.stream(seed, PROP, idx, 'schedule')
    layout = drng.choice(('simple', 'simple', 'hive', 'hivep', 'hivep2'))
    nrg = drng.randrange(3, 7)
    per = drng.choice((6, 12, 25, 40))
    nrows = nrg * per
    codecs = [c for c in F.CODECS if F.codec_ok(c, knobs, True)]
    codec = drng.choice(codecs)
    vseed = drng.randrange(2 ** 31)
    # optional columns: JSON-encoded objects (decoded through the module-level
    # codec cache) and a timezone-aware timestamp
    extras = drng.choice(([], ['j'], ['tz'], ['j', 'tz']))
    # built by one write, or row group by row group through appends whose
    # categorical column carries its own labels each time (a different
    # dictionary page per row group)
    build = drng.choice(('single', 'appended'))
    mode = 'write' if rng.random() < 0.18 else 'read'
    cfg = rng.choice(('A', 'B', 'B'))
    nthreads = rng.choice((2, 2, 3, 3, 4, 4, 4, 6, 8, 16))
    threads = []
    if mode == 'read':
        # a quarter of the runs are "themed": the threads mostly issue the
        # same kind of operation with their own arguments (what a task
        # scheduler does: the same function over many pieces)
        theme = rng.choice(('rowfilt', 'filt', 'count', 'iter', 'slice',
                            'head', 'stats', 'cats', 'pickle', 'text')) \
            if rng.random() < 0.25 else None
        for _ in range(nthreads):
            ops = [gen_op(rng, cfg, nrg, nrows, layout.startswith('hivep'),
                          knobs['v2'] or knobs['page'] not in (None, 4096),
                          extras, theme)
                   for _ in range(rng.choice((1, 1, 2, 3)))]
            if rng.random() < 0.3:
                # the same call again (a memoised answer, if any, is used)
                i = rng.randrange(len(ops))
                ops.insert(i + 1, copy.deepcopy(ops[i]))
            threads.append(ops)
    else:
        nthreads = min(nthreads, 6)
        how = rng.choice(('part', 'part', 'partitioned'))
        comp_dict = rng.random() < 0.5
        for t in range(nthreads):
            threads.append([{'op': 'w-' + how, 't': t,
                             'comp_dict': comp_dict,
                             'vseed': rng.randrange(2 ** 31),
                             'nrows': rng.randrange(3, 30)}])
    r = srng.random()
    if r < 0.45:
        strategy = ['random', srng.choice((0.01, 0.02, 0.02, 0.05, 0.1,
                                           0.3))]
    elif r < 0.7:
        strategy = ['fair', srng.choice((0.1, 0.3, 0.6)),
                    srng.choice((0, 30, 300, 3000))]
    elif r < 0.82:
        strategy = ['pct', srng.choice((1, 2, 3))]
    elif r < 0.92:
        strategy = ['rr', srng.choice((1, 2, 5, 17, 101))]
    else:
        strategy = ['coarse']
    return {'prop': PROP, 'seed': seed, 'idx': idx, 'tier': tier,
            'knobs': knobs, 'layout': layout, 'nrg': nrg, 'per': per,
            'codec': codec, 'vseed': vseed, 'extras': extras,
            'build': build,
            'mode': mode, 'cfg': cfg, 'threads': threads,
            'strategy': strategy, 'sched_seed': srng.randrange(2 ** 31),
            'conc_first': srng.random() < 0.5,
            # a fifth of the smaller runs also pre-empts between any two
            # source lines of the package (see sim/sched.py: dense)
            'dense': nthreads <= 4 and srng.random() < 0.35}


# ------------------------------------------------------------------- dataset

def frame_spec(case, batch=0, nrows=None, vseed=None):
    vs = case['vseed'] if vseed is None else vseed
    spec = {'batch': batch,
            'nrows': case['nrg'] * case['per'] if nrows is None else nrows,
            'cols': [['uid', 'uid', 'none', 0, None],
                     ['f', 'f64', 'some', vs + 1, None],
                     ['s', 'str', 'some', vs + 2, None],
                     ['c', 'cat', 'some', vs + 3, ['x', 'y', 'q', 'w']],
                     ['i', 'i32', 'none', vs + 4, None],
                     ['d', 'dt', 'some', vs + 5, None],
                     ['b', 'bool', 'none', vs + 6, None]],
            'part': {}}
    if 'j' in case.get('extras', ()):
        spec['cols'].append(['j', 'json', 'some', vs + 8, None])
    if 'tz' in case.get('extras', ()):
        spec['cols'].append(['tz', 'dttz', 'some', vs + 9, 'Europe/Paris'])
    if case['layout'] == 'hivep':
        spec['part'] = {'p': ['pstr', ['a', 'b'], vs + 7]}
    elif case['layout'] == 'hivep2':
        spec['part'] = {'p': ['pstr', ['a', 'b'], vs + 7],
                        'q': ['pint', [1, 2], vs + 10]}
    return spec


_DS_CACHE = {}


def dataset_key(case):
    return json.dumps([case['layout'], case['nrg'], case['per'],
                       case['codec'], case['vseed'], case['knobs'],
                       case.get('extras'), case.get('build')],
                      sort_keys=True)


def cached_dataset(case):
    """-> (fs with the dataset, path, solo-result cache).  Building the
    dataset and the solo results are pure functions of the key, so caching
    them cannot make a run depend on the runs before it."""
    key = dataset_key(case)
    ent = _DS_CACHE.get(key)
    if ent is None:
        fs = D.new_fs('posix')
        path = build_dataset(case, fs)
        if len(_DS_CACHE) > 4:
            _DS_CACHE.clear()
        ent = _DS_CACHE[key] = (fs.snapshot(), path, {})
    fs = D.clone_fs(ent[0])
    return fs, ent[1], ent[2]


def build_dataset(case, fs):
    df = F.build_frame(frame_spec(case))
    # small ints for the stats-based filters
    df['i'] = (df['i'] % 101 - 50).astype('int32')
    layout = case['layout']
    path = '/w/ds.parq' if layout == 'simple' else D.DS
    scheme = 'simple' if layout == 'simple' else 'hive'
    parts = {'hivep': ['p'], 'hivep2': ['p', 'q']}.get(layout, [])
    extra = {'object_encoding': {'j': 'json', 's': 'utf8'}} \
        if 'j' in case.get('extras', ()) else None
    opts = {'codec': case['codec'], 'rgo': case['per'], 'stats': True}
    if case.get('build') != 'appended':
        D.do_write(fs, path, df, opts, scheme, parts, extra=extra)
        return path
    per = case['per']
    for r in range(case['nrg']):
        piece = df.iloc[r * per:(r + 1) * per].reset_index(drop=True)
        tag = str((case['vseed'] + r) % 9973)
        piece['c'] = piece['c'].cat.rename_categories(
            lambda x: x + tag)
        if r == 0:
            D.do_write(fs, path, piece, opts, scheme, parts, extra=extra)
        else:
            D.do_append(fs, path, piece, dict(opts, entry='write'), scheme,
                        parts)
    return path


# ------------------------------------------------------------------ results

def canon_result(x):
    if isinstance(x, pd.DataFrame):
        idx = x.index
        return ['frame', [str(c) for c in x.columns],
                [str(t) for t in x.dtypes], F.canon_frame(x),
                [type(idx).__name__, str(idx.dtype),
                 F.canon_series(pd.Series(idx))
                 if not isinstance(idx, pd.RangeIndex)
                 else [idx.start, idx.stop, idx.step]]]
    if isinstance(x, (list, tuple)):
        return ['list', [canon_result(v) for v in x]]
    if isinstance(x, dict):
        return ['dict', sorted(([str(k), canon_result(v)]
                                for k, v in x.items()), key=lambda kv: kv[0])]
    if isinstance(x, np.ndarray):
        return ['array', [F.canon_cell(v) for v in x.tolist()]]
    if isinstance(x, (pd.Index,)):
        return ['index', [F.canon_cell(v) for v in x.tolist()]]
    c = F.canon_cell(x)
    return c if c is None or c[0] != '?' else ['repr', str(x)]


def _cond(c):
    v = c[2]
    if isinstance(v, dict) and 'ts' in v:
        v = pd.Timestamp(v['ts'])
    return (c[0], c[1], v)


def tup(f):
    """JSON lists -> filter tuples."""
    if f is None:
        return None
    if f and isinstance(f[0], list) and f[0] and isinstance(f[0][0], list):
        return [[_cond(c) for c in g] for g in f]
    return [_cond(c) for c in f]


def run_op(pf, op):
    k = op['op']
    if k == 'read':
        return pf.to_pandas()
    if k == 'cols':
        return pf.to_pandas(columns=list(op['columns']))
    if k == 'filt':
        return pf.to_pandas(columns=op.get('columns'),
                            filters=tup(op['filters']))
    if k == 'rowfilt':
        return pf.to_pandas(filters=tup(op['filters']), row_filter=True)
    if k == 'cats':
        return pf.to_pandas(categories=op['categories'])
    if k == 'stats':
        return pf.statistics
    if k == 'spc':
        from fastparquet.api import sorted_partitioned_columns
        return sorted_partitioned_columns(pf)
    if k == 'pickle':
        return pickle.loads(pickle.dumps(pf)).to_pandas()
    if k == 'attrs':
        # pf.dtypes reflects the categories= of the last to_pandas call on
        # the handle even in sequential use (handle-history dependence, not
        # a concurrency matter): only its keys are compared
        return {'columns': pf.columns, 'dtype_names': list(pf.dtypes),
                'info': pf.info, 'count': pf.count(),
                'kv': sorted(pf.key_value_metadata), 'len': len(pf)}
    if k == 'count':
        return pf.count(filters=tup(op['filters']))
    if k == 'text':
        return [str(pf), repr(pf.schema), pf.schema.text,
                pf.schema == pf.schema, bool(pf), pf.file_scheme,
                sorted(pf.cats), sorted(pf.categories or ())]
    if k == 'slice':
        sub = pf[op['i']:op['j']]
        if op['then'] == 'count':
            return sub.count()
        if op['then'] == 'cols':
            return sub.to_pandas(columns=['uid', 's', 'c'])
        return sub.to_pandas()
    if k == 'item':
        return pf[op['i']].to_pandas()
    if k == 'iter':
        return list(pf.iter_row_groups(filters=tup(op.get('filters'))))
    if k == 'head':
        return pf.head(op['n'])
    raise ValueError(k)


def schema_sig(pf):
    from fastparquet.schema import schema_to_text
    return schema_to_text(pf.schema.schema_elements[0], [])


# ------------------------------------------------------------------- execute

def execute(case):
    D.reset_library_caches()
    res = {'verdict': 'ok', 'violations': [], 'evals': 1, 'keys': [],
           'counters': {}, 'faults': {}, 'probes': {}, 'steps': 0,
           'interleavings': []}
    cnt, probes = res['counters'], res['probes']

    def bump(d, k, n=1):
        d[k] = d.get(k, 0) + n

    def violation(key, msg, schedule):
        c = dict(case)
        c['schedule'] = schedule
        res['verdict'] = 'violation'
        if not any(v['class_key'] == key for v in res['violations']):
            res['violations'].append({'class_key': key, 'message': msg,
                                      'case': c})

    with F.Knobs(case['knobs']), F.Poison():
        try:
            fs, path, solo_cache = cached_dataset(case)
        except Exception as e:
            res.update(verdict='discard', digest='discard', evals=0,
                       discard='dataset: %s: %s' % (type(e).__name__, e))
            return res
        if case['mode'] == 'write':
            return execute_writers(case, fs, path, res, violation, bump)
        # ---- solo phase: every distinct operation alone on a fresh handle.
        # In half of the runs it comes *after* the concurrent phase, so that
        # the threads are the first in this process to touch the dataset:
        # anything the library memoises per process (decoded pages, codecs,
        # parsed paths) is then filled in concurrently, not beforehand.
        solo = {}
        horizon = 0
        conc_first = bool(case.get('conc_first'))

        def solo_phase():
            for ops in case['threads']:
                for op in ops:
                    key = json.dumps(op, sort_keys=True)
                    if key in solo:
                        continue
                    if key in solo_cache:
                        solo[key] = solo_cache[key]
                        continue
                    try:
                        solo[key] = ('ok', canon_result(
                            run_op(D.ParquetFile(path, fs=fs), op)))
                    except Exception as e:
                        solo[key] = ('exc', type(e).__name__)
                    solo_cache[key] = solo[key]
            if any(v[0] == 'exc' for v in solo.values()):
                # an operation that fails alone is outside C20's statement
                res.update(verdict='discard', digest='discard', evals=0,
                           discard='operation fails sequentially: %r'
                           % [k[:80] for k, v in solo.items()
                              if v[0] == 'exc'])
                return False
            return True
        if not conc_first and not solo_phase():
            return res
        # ---- concurrent phase on one shared handle
        D.reset_library_caches()
        shared = D.ParquetFile(path, fs=fs)

        def worker(ops):
            def fn():
                return [canon_result(run_op(shared, op)) for op in ops]
            return fn
        strategy = case['strategy']
        if 'schedule' in case:
            sch = S.Scheduler(('replay', case['schedule']), dense=_dense(case))
        elif strategy[0] == 'pct' and conc_first:
            sch = S.Scheduler(('pct', strategy[1], 4000 * sum(
                len(o) for o in case['threads'])), seed=case['sched_seed'],
                nthreads=len(case['threads']), dense=_dense(case))
        elif strategy[0] == 'pct':
            c = S.Counter()
            c.run(codes(), lambda: [run_op(D.ParquetFile(path, fs=fs), op)
                                    for ops in case['threads'] for op in ops])
            horizon = c.n
            D.reset_library_caches()
            shared = D.ParquetFile(path, fs=fs)
            sch = S.Scheduler(('pct', strategy[1], horizon),
                              seed=case['sched_seed'],
                              nthreads=len(case['threads']), dense=_dense(case))
        else:
            sch = S.Scheduler(tuple(strategy), seed=case['sched_seed'],
                              nthreads=len(case['threads']), dense=_dense(case))
        fs.io_hook = sch.io_point
        sch.install(codes())
        try:
            results = sch.run([worker(ops) for ops in case['threads']])
        finally:
            sch.uninstall(codes())
            fs.io_hook = None
        res['steps'] = sch.npoints
        res['digest'] = sch.digest()
        if sch.aborted:
            res.update(verdict='discard', evals=0,
                       discard='step cap reached (%d points)' % sch.npoints)
            bump(cnt, 'step_cap_discards')
            return res
        schedule = sch.schedule()
        if conc_first:
            bump(cnt, 'concurrent_phase_before_solo_phase')
            if not solo_phase():
                return res
        # (2) nobody raised, (1) everybody got the solo value
        for t, ops in enumerate(case['threads']):
            r = results[t]
            if r[0] == 'exc':
                violation('C20/call-failed:%s@%s' % (r[1], r[3]),
                          'thread %d %r raised %s: %s (while %d other '
                          'threads were active; schedule of %d switches)'
                          % (t, [o['op'] for o in ops], r[1], r[2],
                             len(case['threads']) - 1,
                             len(schedule['switches'])), schedule)
                continue
            for op, got in zip(ops, r[1]):
                exp = solo[json.dumps(op, sort_keys=True)][1]
                if got != exp:
                    violation('C20/result-differs:%s' % op['op'],
                              'thread %d op %s returned a value different '
                              'from the one it returns alone: %s'
                              % (t, json.dumps(op)[:120], _first_diff(exp,
                                                                      got)),
                              schedule)
        # (3) the shared handle is undisturbed
        try:
            fresh = D.ParquetFile(path, fs=fs)
            if schema_sig(shared) != schema_sig(fresh):
                violation('C20/shared-handle-schema-tree-changed',
                          'schema tree of the shared handle differs from a '
                          'fresh handle after the run', schedule)
            for op in ({'op': 'read'}, {'op': 'stats'}, {'op': 'attrs'}):
                a = canon_result(run_op(shared, op))
                b = canon_result(run_op(fresh, op))
                if a != b:
                    violation('C20/shared-handle-disturbed:%s' % op['op'],
                              'after the run the shared handle answers %s '
                              'differently from a fresh handle: %s'
                              % (op['op'], _first_diff(b, a)), schedule)
        except Exception as e:
            violation('C20/shared-handle-broken-after-run',
                      '%s: %s' % (type(e).__name__, e), schedule)
    _account(case, sch, res, bump)
    return res


def _account(case, sch, res, bump):
    cnt, probes = res['counters'], res['probes']
    bump(cnt, 'schedules')
    bump(cnt, 'strategy_' + case['strategy'][0])
    bump(cnt, 'threads_%s' % ('2' if len(case['threads']) == 2 else '3-4'
                              if len(case['threads']) <= 4 else '6-16'))
    bump(cnt, 'config_' + (case['cfg'] if case['mode'] == 'read'
                           else 'writers'))
    bump(cnt, 'context_switches', len(sch.switches))
    if sch.true_switches:
        hsw = hashlib.blake2b(json.dumps(sch.switches).encode(),
                              digest_size=8).hexdigest()
        res['keys'].append(hsw)
        res['interleavings'].append(hsw)
    res['overlap'] = sorted(sch.overlap)[:400]
    for pair in sch.overlap:
        a, b = pair.split(' | ')
        for name, x, y in (
                ('switch_inside_SchemaHelper_init', 'SchemaHelper.__init__',
                 None),
                ('schema_rebuild_x_schema_element', 'schema_tree',
                 'schema_element'),
                ('filter_out_stats_x_filter_out_stats', 'filter_out_stats',
                 'filter_out_stats'),
                ('dtypes_x_pre_allocate', '_dtypes', 'pre_allocate'),
                ('getstate_x_to_pandas', '__getstate__', 'to_pandas'),
                ('make_part_file_x_make_part_file', 'make_part_file',
                 'make_part_file'),
                ('read_col_x_read_col', 'read_col', 'read_col')):
            if (x in a and (y is None or y in b)) or \
                    (x in b and (y is None or y in a)):
                bump(probes, name)


def _first_diff(a, b, path=''):
    if type(a) != type(b):
        return '%s: %r vs %r' % (path, str(a)[:80], str(b)[:80])
    if isinstance(a, list):
        if len(a) != len(b):
            return '%s: length %d vs %d' % (path, len(a), len(b))
        for i, (x, y) in enumerate(zip(a, b)):
            if x != y:
                return _first_diff(x, y, '%s[%d]' % (path, i))
    if isinstance(a, dict):
        for k in a:
            if a.get(k) != b.get(k):
                return _first_diff(a.get(k), b.get(k), '%s.%s' % (path, k))
    return '%s: %r vs %r' % (path, str(a)[:80], str(b)[:80])


# -------------------------------------------------------------- writer runs

def execute_writers(case, fs, path, res, violation, bump):
    from fastparquet import writer
    layoutp = case['layout'].startswith('hivep')
    wparts = ['p', 'q'] if case['layout'] == 'hivep2' else ['p']
    frames = []
    for ops in case['threads']:
        op = ops[0]
        df = F.build_frame(frame_spec(case, batch=op['t'] + 1,
                                      nrows=op['nrows'], vseed=op['vseed']))
        df['i'] = (df['i'] % 101 - 50).astype('int32')
        frames.append(df)

    def make_fmd():
        pf = D.ParquetFile(path, fs=fs)
        return pf.fmd

    def calls(tfs, fmd):
        out = []
        # the codec as one string, or as one dict object (with a _default
        # entry) that all writer threads are handed
        comp = case['codec']
        if case['threads'][0][0].get('comp_dict'):
            comp = {'_default': case['codec'] or 'SNAPPY', 'f': None,
                    's': 'GZIP'}
        for t, (ops, df) in enumerate(zip(case['threads'], frames)):
            op = ops[0]
            if op['op'] == 'w-part' or not layoutp:
                data = df.drop(columns=[c for c in ('p', 'q') if c in df])
                p = '/w/out/part.%d.parquet' % t

                def fn(p=p, data=data):
                    rg = writer.make_part_file(tfs.open(p, 'wb'), data,
                                               fmd.schema,
                                               compression=comp,
                                               fmd=fmd, stats=True)
                    return [rg.num_rows, rg.total_byte_size]
            else:
                def fn(t=t, df=df):
                    rgs = writer.partition_on_columns(
                        df, wparts, '/w/out', 'part.%d.parquet' % t, fmd,
                        comp, tfs.open, tfs.mkdirs, True, True)
                    return [[rg.num_rows, rg.columns[0].file_path]
                            for rg in rgs]
            out.append(fn)
        return out
    snap = fs.snapshot()
    # sequential reference
    ref = D.clone_fs(snap)
    ref.mkdirs('/w/out')
    fmd_ref = make_fmd()
    try:
        exp = [fn() for fn in calls(ref, fmd_ref)]
    except Exception as e:
        res.update(verdict='discard', digest='discard', evals=0,
                   discard='writer fails sequentially: %s: %s'
                   % (type(e).__name__, e))
        return res
    exp_fmd = bytes(fmd_ref.to_bytes())
    # concurrent
    D.reset_library_caches()
    con = D.clone_fs(snap)
    con.mkdirs('/w/out')
    fmd = make_fmd()
    if 'schedule' in case:
        sch = S.Scheduler(('replay', case['schedule']), dense=_dense(case))
    elif case['strategy'][0] == 'pct':
        sch = S.Scheduler(('pct', case['strategy'][1], 3000),
                          seed=case['sched_seed'],
                          nthreads=len(case['threads']), dense=_dense(case))
    else:
        sch = S.Scheduler(tuple(case['strategy']), seed=case['sched_seed'],
                          nthreads=len(case['threads']), dense=_dense(case))
    con.io_hook = sch.io_point
    sch.install(codes())
    try:
        results = sch.run(calls(con, fmd))
    finally:
        sch.uninstall(codes())
        con.io_hook = None
    res['steps'] = sch.npoints
    res['digest'] = sch.digest()
    if sch.aborted:
        res.update(verdict='discard', evals=0, discard='step cap reached')
        return res
    schedule = sch.schedule()
    for t, r in sorted(results.items()):
        if r[0] == 'exc':
            violation('C20/writer-call-failed:%s@%s' % (r[1], r[3]),
                      'writer thread %d raised %s: %s' % (t, r[1], r[2]),
                      schedule)
        elif r[1] != exp[t]:
            violation('C20/writer-result-differs',
                      'writer thread %d returned %r, sequentially %r'
                      % (t, r[1], exp[t]), schedule)
    a = {p: bytes(b) for p, b in ref.files.items() if p.startswith('/w/out')}
    b = {p: bytes(x) for p, x in con.files.items() if p.startswith('/w/out')}
    if sorted(a) != sorted(b):
        violation('C20/writer-files-differ', 'files %r vs sequential %r'
                  % (sorted(b), sorted(a)), schedule)
    else:
        for p in sorted(a):
            if a[p] != b[p]:
                violation('C20/writer-bytes-differ',
                          'bytes of %s differ from the sequential run '
                          '(%d vs %d bytes)' % (p, len(b[p]), len(a[p])),
                          schedule)
                break
    try:
        if bytes(fmd.to_bytes()) != exp_fmd:
            violation('C20/shared-metadata-object-changed',
                      'the shared metadata object differs from the '
                      'sequential run afterwards', schedule)
    except Exception as e:
        violation('C20/shared-metadata-object-broken', '%s: %s'
                  % (type(e).__name__, e), schedule)
    _account(case, sch, res, bump)
    return res


# -------------------------------------------------------------------- shrink

def shrink_candidates(case):
    sc = case.get('schedule')
    # fewer threads (tids above the dropped one shift down)
    n = len(case['threads'])
    if n > 2:
        for k in range(n - 1, -1, -1):
            c = copy.deepcopy(case)
            del c['threads'][k]
            if sc:
                def m(t):
                    return t - 1 if t > k else t
                c['schedule']['switches'] = [
                    [m(t), i, m(x)] for t, i, x in sc['switches']
                    if t != k and x != k]
                c['schedule']['exits'] = [m(x) for x in sc['exits']
                                          if x != k]
                c['schedule']['first'] = m(sc['first']) \
                    if sc['first'] != k else 0
            yield c
    if sc:
        sw = sc['switches']
        for sub in drop_each(sw):
            c = copy.deepcopy(case)
            c['schedule']['switches'] = [list(x) for x in sub]
            yield c
    # fewer operations per thread
    for t, ops in enumerate(case['threads']):
        if len(ops) > 1:
            for j in range(len(ops) - 1, -1, -1):
                c = copy.deepcopy(case)
                del c['threads'][t][j]
                yield c
    if case['knobs'].get('page') or case['knobs'].get('v2'):
        c = copy.deepcopy(case)
        c['knobs'] = {'page': None, 'v2': False}
        yield c
    if case.get('codec'):
        c = copy.deepcopy(case)
        c['codec'] = None
        yield c
    if case['per'] > 6:
        c = copy.deepcopy(case)
        c['per'] = 6
        yield c
