"""C19 - an append interrupted before its metadata update leaves the old
dataset intact.

One run = one seeded scenario (a hive dataset built by a short prefix history,
plus one append).  The append is first executed fault-free to record its
mutating-call trace c_1..c_N and M = first call that opens `_metadata` for
writing; then *every* k < M is failed with every applicable fault kind
(enumeration over crash points), each time from the same restored state, and
the outcome is judged after a fresh open.  Level: fault_enumeration.
"""
import hashlib

from sim import dataset as D
from sim import frames as F
from sim import prng
from sim.shrink import drop_each
from sim.simfs import SimCrash

PROP = 'C19'
LEVEL = 'fault_enumeration'
TIERS = {
    'quick': {'runs': 160, 'block': 5, 'run_timeout': 300, 'wall_cap': 900,
              'det_sample': 3},
    'thorough': {'runs': 640, 'block': 20, 'run_timeout': 600,
                 'wall_cap': 7200, 'det_sample': 6},
}
RULE = ('scenario = seeded hive dataset (0-2 partition columns, prefix history '
        'of write/append/remove/failed-append, swarm knobs) + one append; '
        'evaluations = faulted appends executed (every call k before the '
        'first open of _metadata x every applicable fault kind, plus double '
        'faults and crash durability resolutions); a faulted append is '
        'non-trivial when its fault actually fired; distinct = distinct '
        '(scenario shape, fault kind, call kind, file role, position bucket, '
        'durability outcome)')
COMPONENTS = {
    'real': ['fastparquet *.py from /repo working tree',
             'cencoding/speedups C extensions rebuilt from /repo .c files',
             'pandas', 'numpy', 'cramjam', 'fsspec AbstractFileSystem base'],
    'stub': ['filesystem -> sim.simfs.SimFS (in-memory, fault plan, '
             'durability model)'],
}
ASSUMPTIONS = [
    'SimFS implements the file semantics fastparquet uses (cross-checked '
    'against LocalFileSystem in ./verif selftest)',
    'crash model: files untouched since the operation began are intact; '
    'touched files become absent/empty/prefix/torn/complete (posix, no fsync) '
    'or complete-iff-closed (object store); rename/rm are durable at once',
    'scenarios are a seeded sample; crash points are enumerated exhaustively '
    'per scenario',
]



# ------------------------------------------------------------------ generate

from sim.gen import (gen_shape, gen_frame_spec, gen_wopts,  # noqa: E402
                     gen_has_nulls)


def generate(seed, idx, tier):
    rng = prng.stream(seed, PROP, idx, 'scenario')
    knobs = F.gen_knobs(prng.stream(seed, PROP, idx, 'knobs'))
    shape = gen_shape(rng)
    has_cat = any(c[1] == 'cat' for c in shape['cols'])
    batch = 0
    ops = []
    fs0 = gen_frame_spec(rng, shape, batch, permute=False)
    op = {'op': 'write', 'frame': fs0}
    op.update(gen_wopts(rng, fs0['nrows'], has_cat, knobs))
    op['has_nulls'] = gen_has_nulls(rng, shape)
    ops.append(op)
    for _ in range(rng.choice((0, 0, 1, 1, 2, 3))):
        batch += 1
        r = rng.random()
        if r < 0.45:
            f = gen_frame_spec(rng, shape, batch)
            o = {'op': 'append', 'frame': f,
                 'entry': rng.choice(('write', 'wrg'))}
            o.update(gen_wopts(rng, f['nrows'], has_cat, knobs))
        elif r < 0.7:
            o = {'op': 'remove', 'sel': [rng.random() for _ in range(3)],
                 'frac': rng.choice((0.2, 0.5))}
        else:
            f = gen_frame_spec(rng, shape, batch)
            o = {'op': 'failed_append', 'frame': f, 'at': rng.random(),
                 'entry': rng.choice(('write', 'wrg'))}
            o.update(gen_wopts(rng, f['nrows'], has_cat, knobs))
        ops.append(o)
    batch += 1
    f = gen_frame_spec(rng, shape, batch)
    app = {'op': 'append', 'frame': f,
           'entry': rng.choice(('write', 'write', 'wrg', 'wrg', 'wrg-iter'))}
    app.update(gen_wopts(rng, f['nrows'], has_cat, knobs))
    if app['entry'] == 'wrg-iter':
        app['cuts'] = [rng.random() for _ in range(rng.choice((0, 1, 2)))]
    if app['entry'] != 'write' and rng.random() < 0.3:
        # append + renumbering of the part files: new parts first, then the
        # renames, the summary last; the window the statement speaks about
        # ends where the renames begin
        app['sort_pnames'] = True
    if rng.random() < 0.3:
        # the judged append is the *retry* of one that failed: same shape
        # (row count, options, entry point), other rows - its complete part
        # files lie orphaned under the names the retry is going to use
        import copy
        first = copy.deepcopy(app)
        first['op'] = 'failed_append'
        first['frame']['batch'] = batch + 1
        for c in first['frame']['cols']:
            if c[1] != 'uid':
                c[3] = rng.randrange(2 ** 31)
        first['at'] = rng.choice((0.6, 0.8, 0.95, 0.999))
        first.pop('sort_pnames', None)
        ops.append(first)
    quick = tier == 'quick'
    return {
        'prop': PROP, 'seed': seed, 'idx': idx, 'tier': tier,
        'knobs': knobs, 'shape': shape, 'prefix': ops, 'append': app,
        'profile': rng.choice(('posix', 'objstore')),
        'both_profiles': not quick,
        'kinds': ['eio', 'enospc_partial', 'enospc_persistent',
                  'eio_partial', 'eio_close', 'crash', 'eio_read',
                  'interrupt'],
        'double_frac': 0.34,
        'n_resolutions': 1 if quick else 3,
        'after_meta': 'sample',
        # I/O handed to the library as plain functions (not bound methods of
        # a filesystem object) in a quarter of the scenarios
        'plain_io': rng.random() < 0.25,
        'spelling': rng.choice((None, None, None, 'sim://' + D.DS,
                                D.DS + '/')),
    }


# ------------------------------------------------------------------- execute

def apply_prefix(fs, case):
    """Run the prefix history; returns the partition column list."""
    parts = list(case['shape']['parts'])
    for op in case['prefix']:
        kind = op['op']
        if kind == 'write':
            D.do_write(fs, D.DS, F.build_frame(op['frame']), op, 'hive', parts)
        elif kind == 'append':
            # a prefix append is an append like any other: it must not touch
            # a data file the summary references
            fs.protected = set(D.referenced_files(D.ParquetFile(D.DS, fs=fs)))
            D.do_append(fs, D.DS, F.build_frame(op['frame']), op, 'hive',
                        parts)
            fs.protected = set()
        elif kind == 'remove':
            pf = D.ParquetFile(D.DS, fs=fs)
            n = len(pf.row_groups)
            if n > 1:
                k = max(1, min(n - 1, int(n * op['frac'])))
                idxs = sorted({int(s * n) % n for s in op['sel']})[:k]
                if len(idxs) < n:
                    pf.remove_row_groups([pf.row_groups[i] for i in idxs],
                                         open_with=fs.open)
        elif kind == 'failed_append':
            # an earlier append that died before its metadata update:
            # leaves orphan part files / directories behind
            probe = D.clone_fs(fs.snapshot(), fs.profile)
            probe.begin_op()
            D.do_append(probe, D.DS, F.build_frame(op['frame']), op, 'hive',
                        parts)
            m = first_meta_call(probe.log)
            if m and m > 1:
                k = 1 + int(op['at'] * (m - 1)) % (m - 1)
                fs.begin_op({k: 'eio'})
                try:
                    D.do_append(fs, D.DS, F.build_frame(op['frame']), op,
                                'hive', parts)
                except OSError:
                    pass
                fs.end_op()
    fs.sync_point()
    return parts


def first_meta_call(log, since_seq=0):
    for ev in log:
        if ev[0] > since_seq and ev[1].startswith('open:') and \
                ev[2].endswith('/_metadata'):
            return ev[3]['k']
    return None


def role_of(ev, base_dirs, base_files):
    op, path = ev[1], ev[2]
    if op == 'mkdirs':
        return 'mkdir-existing' if path in base_dirs else 'mkdir-new'
    parent = path.rsplit('/', 1)[0]
    if path in base_files:
        return 'orphan-overwrite'
    return 'part-in-existing-dir' if parent in base_dirs else \
        'part-in-new-dir'


def bucket(k, m, trace):
    if k == 1:
        return 'first'
    if k == m - 1:
        return 'last-before-meta'
    opens = [e[3]['k'] for e in trace if e[1].startswith('open:')
             and e[3]['k'] < m]
    if len(opens) > 1 and k >= opens[1]:
        return 'later-part'
    return 'first-part'


def applicable(op, kinds):
    out = []
    for kind in kinds:
        if kind == 'eio_read':
            continue                # read-side calls are planned apart
        if kind == 'eio_close':
            if op == 'close':
                out.append(kind)
        elif kind == 'enospc_partial':
            if op != 'close':
                out.append(kind)
        elif kind in ('eio_partial', 'enospc_persistent'):
            if op == 'write':
                out.append(kind)
        elif kind == 'eio':
            if op != 'close':
                out.append(kind)
        else:
            out.append(kind)
    return out


def _drop_late_renames(fs, renum):
    """Monitor hits minus the renames of a requested renumbering that come
    after every part-file call of the operation (parts first, then renames)."""
    if not renum:
        return fs.hits
    last = max([e[0] for e in fs.log
                if e[1] != 'rename' and (e[1] == 'mkdirs' or
                                         e[2].endswith(('.parquet', '.parq')))
                and not e[2].endswith('.tmp')] or [0])
    return [h for h in fs.hits
            if not (h[0] in ('rename-protected', 'rename-clobber')
                    and h[3] > last)]


def run_append(fs, case, parts, df):
    app = case['append']
    # the caller's spelling of the dataset path: canonical, with the
    # filesystem's protocol in front, or with a trailing slash
    D.do_append(fs, case.get('spelling') or D.DS, df, app, 'hive', parts)


def execute(case):
    D.reset_library_caches()
    res = {'verdict': 'ok', 'violations': [], 'evals': 0, 'keys': [],
           'counters': {}, 'faults': {}, 'probes': {}, 'steps': 0}
    cnt, faults, probes = res['counters'], res['faults'], res['probes']
    h = hashlib.blake2b(digest_size=8)

    def bump(d, k, n=1):
        d[k] = d.get(k, 0) + n

    def violation(key, msg, fault=None):
        c = dict(case)
        if fault is not None:
            c['fault'] = fault
        res['verdict'] = 'violation'
        if not any(v['class_key'] == key for v in res['violations']):
            res['violations'].append({'class_key': key, 'message': msg,
                                      'case': c})

    with F.Knobs(case['knobs']), F.Poison():
        base = D.new_fs(case['profile'])
        try:
            parts = apply_prefix(base, case)
            old = D.read_all(base, D.DS)
        except Exception as e:
            if base.hits:
                hit = base.hits[0]
                violation('C19/protected-touched:%s@%s' % (hit[0], hit[2]),
                          'fault-free append in the prefix history touched '
                          'existing data file %s (%s); afterwards: %s: %s'
                          % (hit[1], hit[0], type(e).__name__, e))
                res['digest'] = 'prefix-hit'
                return res
            # the generator promises a valid prefix; a refusal here is a
            # generator/domain matter, not C19
            res['verdict'] = 'discard'
            res['discard'] = 'prefix: %s: %s' % (type(e).__name__, e)
            res['digest'] = 'discard'
            return res
        if base.hits:
            hit = base.hits[0]
            violation('C19/protected-touched:%s@%s' % (hit[0], hit[2]),
                      'fault-free append in the prefix history touched '
                      'existing data file %s (%s)' % (hit[1], hit[0]))
        snap = base.snapshot()
        protected = set(old['files'])
        df = F.build_frame(case['append']['frame'])
        shape_key = '%dp/%s/%s/%s' % (
            len(parts), case['append']['entry'],
            'v2' if case['knobs']['v2'] else 'v1', case['knobs']['page'])

        # ---- fault-free reference run
        ref = D.clone_fs(snap, case['profile'])
        ref.plain_io = bool(case.get('plain_io'))
        ref.protected = set(protected)
        ref.begin_op(track_reads=True)
        try:
            run_append(ref, case, parts, df.copy())
        except Exception as e:
            res['verdict'] = 'discard'
            res['discard'] = 'append refused fault-free: %s: %s' % (
                type(e).__name__, e)
            res['digest'] = 'discard'
            return res
        trace = list(ref.log)
        rtrace = list(ref.rlog)
        n_calls = ref.op_calls
        m = first_meta_call(trace)
        if m is None:
            violation('C19/no-metadata-rewrite',
                      'fault-free append never opened _metadata')
            res['digest'] = 'nometa'
            return res
        renum = bool(case['append'].get('sort_pnames'))
        renames = [e[3]['k'] for e in trace if e[1] == 'rename']
        if renum and renames:
            # renumbering on request: it belongs to the commit phase
            m = min(m, renames[0])
            bump(probes, 'append_with_renumbering')
        # data-file calls: part files and their directories (a backup copy
        # of the summary or its removal is not one)
        last_data = max([e[3]['k'] for e in trace
                         if e[1] == 'mkdirs'
                         or (e[1] != 'rename'
                             and e[2].endswith(('.parquet', '.parq')))]
                        or [0])
        if last_data > m:
            # "parts first, summary last": once the summary is being
            # rewritten while part files are still to come, an append that is
            # interrupted later and reports failure leaves neither the old nor
            # the new dataset
            ev = [e for e in trace if e[3]['k'] == last_data][0]
            violation('C19/summary-rewrite-started-before-parts-complete',
                      'fault-free append opened _metadata at call %d but '
                      'still wrote data files afterwards (call %d: %s %s @%s)'
                      % (m, last_data, ev[1], ev[2], ev[4]))
        ref.hits = _drop_late_renames(ref, renum)
        if ref.hits:
            violation('C19/protected-touched:%s@%s' % (ref.hits[0][0],
                                                       ref.hits[0][2]),
                      'fault-free append touched existing data file: %r'
                      % (ref.hits[:3],))
        try:
            new = D.read_all(ref, D.DS)
        except Exception as e:
            violation('C19/fault-free-append-unreadable',
                      'after a fault-free append a fresh open/read fails: '
                      '%s: %s' % (type(e).__name__, e))
            res['digest'] = 'ff-unreadable'
            return res
        model = D.Model()
        model.batches.append(D.by_uid(old['canon']))
        model.add_frame(df, parts)
        errs = D.compare_to_model(new, model, bool(parts))
        if errs:
            violation('C19/fault-free-append-wrong', '; '.join(errs[:4]))
        bump(cnt, 'scenarios')
        bump(cnt, 'calls_before_meta', m - 1)
        bump(cnt, 'calls_total', n_calls)
        nparts_new = len([e for e in trace if e[1].startswith('open:')
                          and e[3]['k'] < m])
        bump(probes, 'new_part_files_%s' % ('1' if nparts_new == 1 else
                                            '2-3' if nparts_new <= 3
                                            else '4+'))
        if len(parts):
            bump(probes, 'partitioned_scenarios')
        if any(o['op'] == 'failed_append' for o in case['prefix']):
            bump(probes, 'prefix_has_orphans')
        if any(o['op'] == 'remove' for o in case['prefix']):
            bump(probes, 'prefix_has_removal')
        res['steps'] += len(trace)
        res['sample'] = {
            'shape': case['shape']['parts'], 'prefix': [o['op'] for o in
                                                        case['prefix']],
            'append_entry': case['append']['entry'],
            'calls': n_calls, 'first_metadata_call': m,
            'trace_head': [[e[3]['k'], e[1], e[2], e[4]] for e in trace[:14]],
        }
        by_k = {e[3]['k']: e for e in trace}
        by_rk = {e[0]: e for e in rtrace}
        bump(cnt, 'read_calls_before_meta',
             len([e for e in rtrace if e[3] < m]))

        # ---- the plan: which (k, kind, double, profile, resolution) to run
        plan = []
        if 'fault' in case:
            plan.append(dict(case['fault']))
        else:
            frng = prng.stream(case['seed'], PROP, case['idx'], 'faults')
            profiles = ['posix', 'objstore'] if case.get('both_profiles') \
                else [case['profile']]
            for k in range(1, m):
                ev = by_k[k]
                for kind in applicable(ev[1], case['kinds']):
                    for prof in profiles:
                        if kind == 'crash':
                            nres = case['n_resolutions'] if prof == 'posix' \
                                else 1
                            for r in range(nres):
                                plan.append({'k': k, 'kind': kind,
                                             'profile': prof, 'double': False,
                                             'dur': frng.randrange(2 ** 31)})
                        else:
                            dbl = frng.random() < case['double_frac']
                            plan.append({'k': k, 'kind': kind, 'profile': prof,
                                         'double': False,
                                         'dur': frng.randrange(2 ** 31)})
                            if dbl:
                                # the second fault on the 1st .. 5th call
                                # issued after the first one
                                plan.append({'k': k, 'kind': kind,
                                             'profile': prof,
                                             'double': frng.choice(
                                                 (1, 1, 2, 3, 5)),
                                             'dur': frng.randrange(2 ** 31)})
            # read-side calls (stat, listing, open for reading, read) issued
            # before the summary rewrite: each one failed with EIO
            if 'eio_read' in case['kinds']:
                for e in rtrace:
                    if e[3] >= m:
                        continue
                    for prof in profiles:
                        plan.append({'rk': e[0], 'kind': 'eio_read',
                                     'profile': prof,
                                     'double': frng.choice((1, 2, 3))
                                     if frng.random() < case['double_frac'] / 2
                                     else False,
                                     'dur': frng.randrange(2 ** 31)})
            # faults after the metadata rewrite began: executed, only counted
            if case.get('after_meta') == 'sample':
                for k in sorted(frng.sample(range(m, n_calls + 1),
                                            min(3, n_calls + 1 - m))):
                    plan.append({'k': k, 'kind': 'eio' if by_k[k][1] != 'close'
                                 else 'eio_close', 'profile': case['profile'],
                                 'double': False, 'dur': 0, 'after': True})

        # ---- faulted runs
        for fl in plan:
            kind = fl['kind']
            isread = 'rk' in fl
            k = ('r', fl['rk']) if isread else fl['k']
            fs = D.clone_fs(snap, fl['profile'])
            fs.plain_io = bool(case.get('plain_io'))
            fs.protected = set(protected)
            drng = prng.stream(fl['dur'], 'dur')
            fs.sync_point()
            if isread:
                fs.begin_op(rplan={fl['rk']: kind}, double=fl['double'],
                            fault_rng=drng)
            else:
                fs.begin_op({k: kind}, double=fl['double'], fault_rng=drng)
            outcome = 'returned'
            err = None
            try:
                run_append(fs, case, parts, df.copy())
            except SimCrash as e:
                outcome, err = 'crashed', e
            except KeyboardInterrupt as e:
                # the injected cancellation (the process lives on)
                if not fs.fired:
                    raise
                outcome, err = 'raised', e
            except Exception as e:
                outcome, err = 'raised', e
            fired = list(fs.fired)
            fs.end_op()
            res['evals'] += 1
            res['steps'] += fs.op_calls
            dur = None
            if outcome == 'crashed':
                dur = fs.resolve_crash(drng)
            elif fs.crashed:
                # a crash was swallowed by the library: the process is dead
                # whatever the call returned
                outcome = 'crashed'
                dur = fs.resolve_crash(drng)
                bump(probes, 'crash_swallowed_by_library')
            if fl.get('after'):
                bump(cnt, 'faults_after_metadata_started')
                try:
                    D.read_all(fs, D.DS)
                except Exception:
                    bump(cnt, 'after_metadata_fault_left_unreadable_dataset')
                h.update(('%s:%s:after;' % (k, kind)).encode())
                continue
            if not fired:
                bump(cnt, 'fault_did_not_fire')
                continue
            for f in fired:
                bump(faults, f[1])
            if isread:
                re_ = by_rk[fl['rk']]
                # same layout as a mutating event: [seq, op, path, detail, site]
                ev = [0, 'r-' + re_[1], re_[2], {'k': re_[3], 'at': 0}, re_[4]]
                base = re_[2].rsplit('/', 1)[-1]
                role = 'read-summary' if base in ('_metadata',
                                                  '_common_metadata') \
                    else 'read-part' if base.endswith(('.parquet', '.parq')) \
                    else 'read-dir'
                pos = 'read'
                bump(probes, 'read_fault:%s:%s' % (re_[1], role))
            else:
                ev = by_k[k]
                role = role_of(ev, snap[1], snap[0])
                pos = bucket(k, m, trace)
            durtag = '-'
            if dur is not None:
                tags = sorted({d[1].split(':')[0] for d in dur})
                durtag = '+'.join(tags) or 'nothing-touched'
                for t in tags:
                    bump(probes, 'crash_left_%s_file' % t)
            res['keys'].append('|'.join((shape_key, kind + (
                '+2nd' if len(fired) > 1 else ''), ev[1].split(':')[0], role,
                pos, fl['profile'], durtag)))
            if ev[1] == 'write' and ev[3]['at'] > 0:
                bump(probes, 'fault_after_first_byte_of_part')
            if ev[1] == 'close':
                bump(probes, 'fault_on_close')
            if role == 'part-in-new-dir':
                bump(probes, 'fault_in_new_partition_dir')
            if role == 'orphan-overwrite':
                bump(probes, 'fault_while_overwriting_orphan')
            if len(fired) > 1:
                bump(probes, 'second_fault_inside_error_handling')
            bump(cnt, 'outcome_' + outcome)
            fdesc = 'fault %s at call %s (%s %s @%s)%s' % (
                kind, k, ev[1], ev[2], ev[4],
                ' + second eio' if len(fired) > 1 else '')
            # invariant 3: never touch an existing data file
            fs.hits = _drop_late_renames(fs, renum)
            if fs.hits:
                hit = fs.hits[0]
                violation('C19/protected-touched:%s@%s' % (hit[0], hit[2]),
                          '%s: append touched existing data file %s (%s)'
                          % (fdesc, hit[1], hit[0]), fl)
            # oracle 2
            try:
                after = D.read_all(fs, D.DS)
            except Exception as e:
                violation('C19/unreadable-after-%s' % (
                    'failure' if outcome != 'returned' else 'return'),
                    '%s: append %s, then fresh open/read fails: %s: %s'
                    % (fdesc, outcome, type(e).__name__, e), fl)
                h.update(('%s:%s:%s:unreadable;' % (k, kind,
                                                    outcome)).encode())
                continue
            if outcome == 'returned':
                d = D.diff_snap(new, after)
                if d:
                    violation('C19/normal-return-wrong-content',
                              '%s: append returned normally but a fresh open '
                              'does not see old+new: %s' % (fdesc,
                                                            '; '.join(d[:3])),
                              fl)
            else:
                d = D.diff_snap(old, after)
                if d:
                    violation('C19/old-content-changed',
                              '%s: append %s (%s) but dataset differs from '
                              'before: %s' % (fdesc, outcome,
                                              type(err).__name__,
                                              '; '.join(d[:3])), fl)
            h.update(('%s:%s:%s:%s:%s;' % (k, kind, outcome, fs.digest(),
                                           fs.state_digest())).encode())
    res['digest'] = h.hexdigest()
    if 'fault' in case:
        res['trace'] = ['%s %s %s %s %s' % (e[0], e[1], e[2], e[3], e[4])
                        for e in fs.log[-30:]] if plan else []
    return res


# -------------------------------------------------------------------- shrink

def shrink_candidates(case):
    base = {k: v for k, v in case.items() if k != 'fault'}
    kind = case.get('fault', {}).get('kind')
    if kind:
        base['kinds'] = [kind]
        base['both_profiles'] = False
        base['profile'] = case['fault'].get('profile', case['profile'])
        base['after_meta'] = None
    # fewer prefix ops (never the initial write)
    pre = case['prefix']
    for sub in drop_each(pre[1:]):
        c = dict(base)
        c['prefix'] = [pre[0]] + list(sub)
        yield c
    # no partitions
    if case['shape']['parts']:
        for drop in list(case['shape']['parts']):
            c = _without_part(base, drop)
            yield c
    # fewer columns
    for i in range(len(case['shape']['cols']) - 1, -1, -1):
        yield _without_col(base, case['shape']['cols'][i][0])
    # fewer rows
    for which in ('append', 'prefix0'):
        fr = case['append']['frame'] if which == 'append' \
            else case['prefix'][0]['frame']
        if fr['nrows'] > 2:
            c = _deep(base)
            tgt = c['append']['frame'] if which == 'append' \
                else c['prefix'][0]['frame']
            tgt['nrows'] = max(1, fr['nrows'] // 2)
            _fix_rgo(c)
            yield c
    # default knobs / options
    if case['knobs'].get('page') or case['knobs'].get('v2'):
        c = _deep(base)
        c['knobs'] = {'page': None, 'v2': False}
        yield c
    for key, dflt in (('codec', None), ('rgo', None), ('stats', 'auto')):
        if case['append'].get(key) != dflt:
            c = _deep(base)
            c['append'][key] = dflt
            yield c


def _deep(c):
    import copy
    return copy.deepcopy(c)


def _fix_rgo(c):
    for op in c['prefix'] + [c['append']]:
        if 'frame' in op and isinstance(op.get('rgo'), list):
            op['rgo'] = [x for x in op['rgo'] if x < op['frame']['nrows']] \
                or [0]


def _without_part(case, name):
    c = _deep(case)
    c['shape']['parts'].pop(name, None)
    for op in c['prefix'] + [c['append']]:
        if 'frame' in op:
            op['frame']['part'].pop(name, None)
            op['frame']['order'] = [x for x in op['frame']['order']
                                    if x != name]
    return c


def _without_col(case, name):
    c = _deep(case)
    c['shape']['cols'] = [x for x in c['shape']['cols'] if x[0] != name]
    for op in c['prefix'] + [c['append']]:
        if 'frame' in op:
            op['frame']['cols'] = [x for x in op['frame']['cols']
                                   if x[0] != name]
            op['frame']['order'] = [x for x in op['frame']['order']
                                    if x != name]
    return c
